package main

import (
	"strings"
)

// Generators of well-formed assembly programs (trees).  focus selects what the
// program is weighted toward: "mix", "cmdline", "include", "defs".

type progGen struct {
	r         *Rng
	focus     string
	lower     bool
	stored    []string
	files     []string
	p         *Prog
	defNames  []string
	budget    int
	leakProbe bool
}

var storeNames = []string{"x", "head", "tail-1", "A", "slash"}
var crsEvasion = []string{"[^ a-z0-9]*", "(?:[ \\t]|\\x5c)*", "[\\x5c'\\\"]*", "[\"\\^]*", "_av-u_", "(?:\\s|<|>)*", "[\\x5c'\\\"\\[]*(?:\\$[a-z0-9_@?!#{*-]*)?(?:\\x5c)?", "  [x']* \t"}
var crsSuffix = []string{"(?:\\s|<|>).*", "[\\s<>]", "(?:[\\s,;]|$)", "\\s+end", " [ ,;]+ "}
var crsNoSpace = []string{"[^\\s]", "(?:[<>,;]|\\d)", "[0-9]", "[<>].*"}
var cmdWordPool = []string{"ls", "cat", "nc.traditional", "apt-get", "python3~", "time@", "curl@", "a b", "gcc-9", "c99", "w\\@", "x\\~", "ps", "id@", "sh~", "ab", "abc", "net user", "x_y", "7z@"}

func (g *progGen) entry() *Item {
	var t string
	if g.focus == "defs" && len(g.defNames) > 0 && g.r.Chance(2, 3) {
		t = g.r.Pick([]string{"foo", "x", "", "a+", "(?:b|c)"}) + "{{" + g.r.Pick(g.defNames) + "}}" + g.r.Pick([]string{"", "bar", "{{" + g.r.Pick(g.defNames) + "}}", "{2}", "z?"})
	} else if g.r.Chance(1, 3) {
		t = g.r.Pick(entryWords) + g.r.Pick([]string{"", "", "s", "ing", "[0-9]", "\\d+", "\\.txt", "\"", "\\\\"})
	} else {
		t = genEntryText(g.r)
	}
	if g.lower {
		t = lowerASCII(t)
	}
	return &Item{Kind: "entry", Text: t}
}

// lower-case the literal letters of an entry without touching escapes (\S \D \W \x41 ...)
func lowerASCII(t string) string {
	b := []byte(t)
	for i := 0; i < len(b); i++ {
		if b[i] == '\\' {
			i++
			if i < len(b) && b[i] == 'x' {
				// skip hex digits / {..}
				for i+1 < len(b) && (b[i+1] == '{' || b[i+1] == '}' || isHex(b[i+1])) {
					i++
					if b[i] == '}' {
						break
					}
				}
			}
			continue
		}
		if b[i] >= 'A' && b[i] <= 'Z' {
			b[i] += 32
		}
	}
	return string(b)
}

func isHex(c byte) bool {
	return (c >= '0' && c <= '9') || (c >= 'a' && c <= 'f') || (c >= 'A' && c <= 'F')
}

func (g *progGen) cmdWord() *Item {
	if g.r.Chance(1, 12) {
		return &Item{Kind: "entry", Text: "'" + g.r.Pick([]string{"[a-z]+x", "foo\\.bar", "a|b", "\\d{2}"})}
	}
	if g.r.Chance(2, 3) {
		return &Item{Kind: "entry", Text: g.r.Pick(cmdWordPool)}
	}
	n := g.r.Range(1, 6)
	alpha := "abcxyz019._- "
	b := make([]byte, n)
	for i := range b {
		b[i] = alpha[g.r.Intn(len(alpha))]
	}
	w := strings.TrimSpace(string(b))
	if w == "" {
		w = "w"
	}
	w += g.r.Pick([]string{"", "", "@", "~", "\\@", "\\~"})
	if len(w) < 2 && (strings.HasSuffix(w, "@") || strings.HasSuffix(w, "~")) {
		w = "x" + w
	}
	return &Item{Kind: "entry", Text: w}
}

func (g *progGen) block(depth int, inCmdline bool) []*Item {
	n := g.r.Range(1, 5)
	items := []*Item{}
	for i := 0; i < n && g.budget > 0; i++ {
		g.budget--
		k := g.r.Intn(100)
		switch {
		case k < 52:
			items = append(items, g.entry())
		case k < 62 && depth < 3:
			g.p.feat("nested-assemble")
			items = append(items, &Item{Kind: "assemble", Kids: g.block(depth+1, false)})
		case k < 70 && (g.focus == "cmdline" || g.focus == "mix") && depth < 3:
			g.p.feat("cmdline")
			ws := []*Item{}
			for j := g.r.Range(1, 4); j > 0; j-- {
				ws = append(ws, g.cmdWord())
			}
			if len(g.files) > 0 && g.r.Chance(1, 6) {
				for _, fn := range g.files {
					if f := g.p.Files[fn]; len(f.Prefixes) == 0 && len(f.Suffixes) == 0 && f.Flags == "" && wordListOnly(f) {
						ws = append(ws, &Item{Kind: "include", Text: fn})
						g.p.feat("include-in-cmdline")
						break
					}
				}
			}
			items = append(items, &Item{Kind: "cmdline", CmdType: g.r.Pick([]string{"unix", "windows"}), Kids: ws})
		case k < 80:
			g.p.feat("concat")
			items = append(items, &Item{Kind: "concat"})
		case k < 85:
			nm := g.r.Pick(storeNames)
			g.stored = append(g.stored, nm)
			g.p.feat("store")
			items = append(items, &Item{Kind: "store", Text: nm})
		case k < 90 && len(g.stored) > 0:
			g.p.feat("append")
			items = append(items, &Item{Kind: "append", Text: g.r.Pick(g.stored)})
		case k < 97 && len(g.files) > 0:
			g.p.feat("include")
			items = append(items, &Item{Kind: "include", Text: g.r.Pick(g.files)})
		default:
			items = append(items, g.entry())
		}
	}
	return items
}

func wordListOnly(f *IncFile) bool {
	for _, it := range f.Body {
		if it.Kind == "entry" {
			for i := 0; i < len(it.Text); i++ {
				c := it.Text[i]
				if !(c >= 'a' && c <= 'z' || c >= '0' && c <= '9' || c == '.' || c == '-' || c == '_' || c == ' ') {
					return false
				}
			}
		} else if it.Kind != "comment" && it.Kind != "blank" {
			return false
		}
	}
	return true
}

func simpleAffix(r *Rng, lower bool) string {
	t := r.Pick([]string{"\\b", "^", "x", "pre", "[a-z]+", "(?:a|b)", "\\s*", "=", "\\(", "[\"']", "y+", "$", "end"})
	if t == "\\b" {
		t = "x?" // word boundaries are outside the modelled fragment
	}
	if lower {
		t = lowerASCII(t)
	}
	return t
}

func genProg(r *Rng, focus string) *Prog {
	p := &Prog{Files: map[string]*IncFile{}}
	g := &progGen{r: r, focus: focus, p: p, budget: 14}
	switch r.Intn(8) {
	case 0:
		p.Flags = "i"
	case 1:
		p.Flags = "s"
	case 2:
		p.Flags = r.Pick([]string{"is", "si"})
	}
	g.lower = strings.Contains(p.Flags, "i")
	// configuration
	switch r.Intn(6) {
	case 0:
		p.CfgMode = "absent"
	case 1:
		p.CfgMode = r.Pick([]string{"empty", "malformed"})
	default:
		p.CfgMode = "present"
		p.Cfg = [6]string{r.Pick(crsEvasion), r.Pick(crsEvasion), r.Pick(crsSuffix), r.Pick(crsSuffix), r.Pick(crsNoSpace), r.Pick(crsNoSpace)}
		if r.Chance(1, 5) {
			p.Cfg[r.Intn(6)] = "" // partial
		}
		if r.Chance(1, 8) {
			p.CfgMode = "mistyped"
			p.CfgBad = r.Intn(12)
		}
	}
	// definitions
	if focus == "defs" || r.Chance(1, 5) {
		n := r.Range(1, 4)
		// the names in a random order: a chain of nested definitions must not depend on how the names sort
		perm := append([]string{}, defNames...)
		for a := len(perm) - 1; a > 0; a-- {
			b := r.Intn(a + 1)
			perm[a], perm[b] = perm[b], perm[a]
		}
		for i := 0; i < n; i++ {
			g.defNames = append(g.defNames, perm[i])
		}
		p.feat("definitions")
	}
	// include files
	if focus == "include" || r.Chance(1, 4) {
		nf := r.Range(1, 3)
		for i := 0; i < nf; i++ {
			name := []string{"words", "more-words", "sub_list"}[i]
			f := &IncFile{Name: name, Dir: "include"}
			if r.Chance(1, 4) {
				f.Dir = "exclude"
			}
			ne := r.Range(1, 4)
			wl := r.Chance(1, 2)
			for j := 0; j < ne; j++ {
				if wl {
					f.Body = append(f.Body, &Item{Kind: "entry", Text: r.Pick([]string{"ls", "cat", "time", "apt-get", "nc.traditional", "a b", "ps"})})
				} else {
					f.Body = append(f.Body, g.entry())
				}
				if r.Chance(1, 5) {
					f.Body = append(f.Body, &Item{Kind: r.Pick([]string{"comment", "blank"}), Text: "included comment"})
				}
			}
			if !wl && r.Chance(1, 3) {
				f.Prefixes = append(f.Prefixes, simpleAffix(r, g.lower))
				p.feat("include-prefix")
			}
			if !wl && r.Chance(1, 3) {
				f.Suffixes = append(f.Suffixes, simpleAffix(r, g.lower))
				p.feat("include-suffix")
			}
			if r.Chance(1, 4) {
				f.Body = append([]*Item{{Kind: "define", Text: "incdef", Value: r.Pick([]string{"[0-9]+", "q", "(?:u|v)"})}}, f.Body...)
				f.Body = append(f.Body, &Item{Kind: "entry", Text: "z{{incdef}}"})
				p.feat("include-own-definition")
				g.leakProbe = true
			}
			if i > 0 && r.Chance(1, 3) && len(f.Prefixes) == 0 && len(f.Suffixes) == 0 {
				// nested include of an earlier file
				f.Body = append(f.Body, &Item{Kind: "include", Text: g.files[0]})
				p.feat("nested-include")
			}
			p.Files[name] = f
			g.files = append(g.files, name)
		}
	}
	if r.Chance(1, 5) {
		p.Prefixes = append(p.Prefixes, simpleAffix(r, g.lower))
		p.feat("prefix")
	}
	if r.Chance(1, 5) {
		p.Suffixes = append(p.Suffixes, simpleAffix(r, g.lower))
		p.feat("suffix")
	}
	p.Body = g.block(0, false)
	if g.leakProbe && r.Chance(1, 2) {
		// the includer mentions the name an include file defines for itself: must stay literal text
		p.Body = append(p.Body, &Item{Kind: "entry", Text: "lit{{incdef}}"})
		p.feat("undefined-ref-to-include-definition")
	}
	// definition lines: anywhere in the body
	for i, nm := range g.defNames {
		val := r.Pick([]string{"[a-z]+", "\\d{1,3}", "(?:p|q)", "w", "x{2}", "\\.", "[^\"]"})
		if i+1 < len(g.defNames) && r.Chance(1, 2) {
			val = r.Pick([]string{"a", "", "(?:"}) + "{{" + g.defNames[i+1] + "}}" + r.Pick([]string{"", "b", "?"})
			if strings.HasPrefix(val, "(?:") {
				val += ")"
			}
			p.feat("nested-definition")
		}
		if g.lower {
			val = lowerASCII(val)
		}
		d := &Item{Kind: "define", Text: nm, Value: val}
		pos := r.Intn(len(p.Body) + 1)
		p.Body = append(p.Body[:pos], append([]*Item{d}, p.Body[pos:]...)...)
	}
	return p
}

// nested include in file bodies: the plain reading handles include items inside included
// files only when the includer is prefix/suffix free (see prog.go); make that so
func (p *Prog) normalise() {
	for _, f := range p.Files {
		for _, it := range f.Body {
			if it.Kind == "include" && (len(f.Prefixes) > 0 || len(f.Suffixes) > 0) {
				f.Prefixes, f.Suffixes = nil, nil
			}
		}
	}
}
