package main

import (
	"os"
	"strconv"
	"strings"
)

func init() {
	register("fuzz_generate", suiteFuzzGenerate)
}

var fuzzLines = []string{"##! old value: ##!> define sep [/x]\n##!> define sep [:;]\npath{{sep}}to", "##!> define k v1\n##! was ##!> define k v0\n{{k}}", "##!> define x {{x}}\n{{x}}", "##!> define x a{{y}}\n##!> define y b{{x}}\nuse{{x}}", "##!> define a {{b}}\n##!> define b {{c}}\n##!> define c z\n{{a}}{{b}}", "##! +s\nfoo.bar", "##! ^x\nabc", "##!> cmdline\nx\n##!<", "##!> cmdline 1\nx\n##!<"}

var fuzzTokens = []string{"##!", "##!>", "##!<", "##!=>", "##!=<", "##!+", "##!^", "##!$", " assemble", " cmdline", " unix", " windows", " include", " include-except", " define",
	" x", " inc", " --", " a", " b", "i", "s", "(", ")", "(?:", "(?i:", "(?s:", "\\(?i:x", "\\(", "\\)", "|", "[", "]", "[^", "\\", "\\\\", "\"", "{", "}", "{{", "}}", "{{x}}", "*", "+", "?", ".",
	"^", "$", "\\x", "\\x{", "é", "\xff", "\x00", "\t", " ", "a", "foo", "@", "~", "'", "-", "\\s", "\\b", "{2,3}", "{99999}", "(?P<n>", "(?i)", "\\Q", "\\E", "\\pL", "[[:alpha:]]", "\r"}

func genFuzzText(r *Rng) string {
	var sb strings.Builder
	lines := r.Range(0, 8)
	for i := 0; i < lines; i++ {
		switch r.Intn(5) {
		case 4:
			sb.WriteString(r.Pick(fuzzLines))
		case 0:
			l, _ := genDirectiveLine(r)
			sb.WriteString(l)
		case 1:
			sb.WriteString(genRxText(r))
		default:
			n := r.Range(0, 7)
			for j := 0; j < n; j++ {
				sb.WriteString(r.Pick(fuzzTokens))
			}
		}
		if i < lines-1 || r.Chance(4, 5) {
			sb.WriteString("\n")
		}
	}
	return sb.String()
}

func suiteFuzzGenerate(env *Env, res *Result) {
	res.Rule = "token-level fuzz: texts of 0..8 lines built from directive fragments, regex metacharacters, flag-group look-alikes, escapes, braces, quotes, control and non-ASCII bytes; fed to `regex generate -` and, in 30% of the cases, placed in an include file that a one-line program includes; oracle: no runtime error, no timeout (deliberate diagnostics are loud failures); the same inputs run through the Gallina model (class OK/ERR/CRASH and bytes must agree); non-trivial = anything but a clean success with empty output"
	r := NewRng(env.Seed + 190)
	n := env.N(400, 20000)
	type fz struct {
		text   string
		inc    string
		res    CLIResult
		tree   Tree
		hasInc bool
	}
	runs := make([]*fz, n)
	for i := range runs {
		f := &fz{text: genFuzzText(r)}
		f.tree = Tree{"regex-assembly/include/": "", "regex-assembly/exclude/": ""}
		if r.Chance(3, 10) {
			f.hasInc = true
			f.inc = f.text
			f.text = r.Pick([]string{"##!> include fz\n", "a\n##!> include fz\nb\n", "##!> cmdline unix\n##!> include fz\n##!<\n", "##!> include-except fz fz\n", "##!> include fz -- a b\n"})
			if r.Chance(1, 12) {
				// an include file that includes itself (directly, or through a second file): no cycle
				// detection exists; the run must still end promptly and loudly
				if r.Chance(1, 2) {
					f.inc += "##!> include fz\n"
				} else {
					f.inc += "##!> include fz2\n"
					f.tree["regex-assembly/include/fz2.ra"] = "x\n##!> include fz\n"
				}
			}
			f.tree["regex-assembly/include/fz.ra"] = f.inc
		}
		runs[i] = f
	}
	parallelFor(n, func(i int) {
		f := runs[i]
		root := mkScratch(env, "fz")
		writeTree(root, f.tree)
		f.res = runCLI(env, root, f.text, "-d", root, "regex", "generate", "-")
		_ = os.RemoveAll(root)
	})
	var cases []CorrCase
	for _, f := range runs {
		cl := exitClass(f.res)
		res.count("exit:" + cl)
		input := map[string]interface{}{"stdin": f.text}
		if f.hasInc {
			input["include/fz.ra"] = f.inc
		}
		if cl == "crash" || cl == "hang" {
			shape := "generate_" + cl
			if strings.Contains(f.res.Stderr, "index out of range") || strings.Contains(f.res.Stderr, "slice bounds out of range") {
				if escapedParenFlagGroup(f.text) || escapedParenFlagGroup(f.inc) {
					shape = "c19_escaped_paren_flag_group"
				}
			}
			res.addFailure(Failure{Kind: "C19", Shape: shape, Input: input, Detail: clip(f.res.Stderr, 600)})
		}
		fs := "."
		if f.hasInc {
			fs = fsArgOf(f.tree)
		}
		cls := "interesting"
		if cl == "ok" && f.res.Stdout == "" {
			cls = ""
		}
		lenient := ""
		if cyclicDefinitions(f.text + "\n" + f.inc) {
			lenient = "cyclic-definitions"
		}
		cases = append(cases, CorrCase{Fields: []string{"generate", "-", "-", "-", "-", "-", "-", fs, hx(f.text)}, Impl: implClass(f.res), Human: strconv.Quote(f.text) + " inc=" + strconv.Quote(f.inc), Class: cls, Lenient: lenient})
	}
	outs := compareWithModelAlt(env, res, cases)
	// C03: where the model says the result depends on a map iteration order, show it on the binary
	var suspects []int
	for i, o := range outs {
		if !strings.HasPrefix(o, "ORDER-DEPENDENT") && o == cases[i].Impl {
			continue // model and binary agree on one result: nothing points at an order dependence
		}
		if cl := exitClass(runs[i].res); cl == "hang" || cl == "crash" {
			continue // reported above
		}
		if len(suspects) < 60 {
			suspects = append(suspects, i)
		}
	}
	type rerun struct {
		seen map[string]bool
	}
	rr := make([]rerun, len(suspects))
	parallelFor(len(suspects), func(k int) {
		f := runs[suspects[k]]
		root := mkScratch(env, "fzr")
		defer os.RemoveAll(root)
		writeTree(root, f.tree)
		seen := map[string]bool{implClass(f.res): true}
		for j := 0; j < 24 && len(seen) < 2; j++ {
			seen[implClass(runCLI(env, root, f.text, "-d", root, "regex", "generate", "-"))] = true
		}
		rr[k] = rerun{seen}
	})
	for k, i := range suspects {
		f := runs[i]
		if len(rr[k].seen) > 1 {
			all := f.text + "\n" + f.inc
			shape := "c03_order_dependent_other"
			if cyclicDefinitions(all) {
				shape = "c03_cyclic_definitions"
			} else if ambiguousIncludeLine(all) {
				shape = "c03_line_claimed_by_two_patterns" // impossible since fix 597d59c (classify_unique): not a known shape
			} else if strings.Contains(all, "--") {
				shape = "c03_chained_suffix_pairs"
			}
			input := map[string]interface{}{"stdin": f.text, "include/fz.ra": f.inc}
			res.addFailure(Failure{Kind: "C03", Shape: shape, Input: input, Detail: "fresh executions on identical input give different results"})
		} else {
			res.count("order-dependent-in-model-not-observed")
		}
	}
}

// a line that mentions "##!> include" but does not start with it (after indentation)
func ambiguousIncludeLine(t string) bool {
	for _, l := range strings.Split(t, "\n") {
		l = strings.TrimLeft(l, " \t")
		i := strings.Index(l, "##!>")
		for i >= 0 {
			rest := strings.TrimLeft(l[i+4:], " \t\f\r")
			if strings.HasPrefix(rest, "include") && !strings.HasPrefix(rest, "include-except") && i > 0 {
				return true
			}
			j := strings.Index(l[i+4:], "##!>")
			if j < 0 {
				break
			}
			i += 4 + j
		}
	}
	return false
}

// the shape of known finding C19-escaped-paren-flag-group: an escaped '(' directly followed by ?flags:
func escapedParenFlagGroup(t string) bool {
	for i := 0; i+3 < len(t); i++ {
		if t[i] == '\\' && t[i+1] == '(' && t[i+2] == '?' {
			j := i + 3
			for j < len(t) && strings.ContainsRune("-misU", rune(t[j])) {
				j++
			}
			if j > i+3 && j < len(t) && (t[j] == ':' || t[j] == ')') {
				return true
			}
		}
	}
	return false
}

// definitions that reference each other in a cycle (outside C07's quantifier, but the result
// then depends on the map iteration order: known finding C03-cyclic-definitions)
func cyclicDefinitions(t string) bool {
	defs := map[string]string{}
	for _, l := range strings.Split(t, "\n") {
		f := strings.Fields(strings.TrimLeft(l, " \t"))
		if len(f) == 4 && f[0] == "##!>" && f[1] == "define" {
			if _, ok := defs[f[2]]; !ok {
				defs[f[2]] = f[3]
			}
		}
	}
	var visit func(n string, seen map[string]bool) bool
	visit = func(n string, seen map[string]bool) bool {
		if seen[n] {
			return true
		}
		seen[n] = true
		for m := range defs {
			if strings.Contains(defs[n], "{{"+m+"}}") && visit(m, seen) {
				return true
			}
		}
		delete(seen, n)
		return false
	}
	for n := range defs {
		if visit(n, map[string]bool{}) {
			return true
		}
	}
	return false
}
