package main

import (
	"bytes"
	"crypto/sha256"
	"encoding/hex"
	"fmt"
	"io/fs"
	"os"
	"os/exec"
	"path/filepath"
	"sort"
	"strings"
	"sync"
	"time"
)

type CLIResult struct {
	Exit     int
	Stdout   string
	Stderr   string
	TimedOut bool
}

// runCLI runs the crs-toolchain binary built from /repo.
func runCLI(env *Env, cwd string, stdin string, args ...string) CLIResult {
	// The binary under test has no include-cycle detection: it stops when it runs out of file
	// descriptors.  Keep that bound the same wherever the checks run (the harness itself keeps its
	// own limit: the in-process parser never closes the files it opens).
	shArgs := append([]string{"-c", `ulimit -n 4096 2>/dev/null; exec "$0" "$@"`, env.Bin}, args...)
	cmd := exec.Command("/bin/sh", shArgs...)
	cmd.Dir = cwd
	cmd.Env = append(os.Environ(), "CI=true", "NO_COLOR=1")
	cmd.Stdin = strings.NewReader(stdin)
	var out, errb bytes.Buffer
	cmd.Stdout = &out
	cmd.Stderr = &errb
	done := make(chan error, 1)
	if err := cmd.Start(); err != nil {
		return CLIResult{Exit: -1, Stderr: err.Error()}
	}
	go func() { done <- cmd.Wait() }()
	select {
	case err := <-done:
		code := 0
		if err != nil {
			if ee, ok := err.(*exec.ExitError); ok {
				code = ee.ExitCode()
			} else {
				code = -1
			}
		}
		return CLIResult{Exit: code, Stdout: out.String(), Stderr: errb.String()}
	case <-time.After(20 * time.Second):
		_ = cmd.Process.Kill()
		<-done
		return CLIResult{Exit: -2, Stdout: out.String(), Stderr: errb.String(), TimedOut: true}
	}
}

// exit status class of the CLI: ok / fail (deliberate, status 1 or a logged panic) / crash (runtime fault) / hang
func exitClass(r CLIResult) string {
	if r.TimedOut {
		return "hang"
	}
	if r.Exit == 0 {
		return "ok"
	}
	if strings.Contains(r.Stderr, "runtime error") || strings.Contains(r.Stderr, "fatal error:") || strings.Contains(r.Stderr, "SIGSEGV") {
		return "crash"
	}
	return "fail"
}

// Tree: relative path -> contents
type Tree map[string]string

func writeTree(root string, t Tree) {
	for p, c := range t {
		full := filepath.Join(root, p)
		_ = os.MkdirAll(filepath.Dir(full), 0o755)
		if strings.HasSuffix(p, "/") {
			_ = os.MkdirAll(full, 0o755)
			continue
		}
		_ = os.WriteFile(full, []byte(c), 0o644)
	}
}

type Snap map[string]string // path -> "type:mode:size:sha256"

func snapshot(root string) Snap {
	s := Snap{}
	_ = filepath.WalkDir(root, func(p string, d fs.DirEntry, err error) error {
		if err != nil {
			return nil
		}
		rel, _ := filepath.Rel(root, p)
		info, err := d.Info()
		if err != nil {
			return nil
		}
		if d.IsDir() {
			s[rel+"/"] = fmt.Sprintf("dir:%o", info.Mode().Perm())
			return nil
		}
		b, _ := os.ReadFile(p)
		h := sha256.Sum256(b)
		s[rel] = fmt.Sprintf("file:%o:%d:%s", info.Mode().Perm(), len(b), hex.EncodeToString(h[:8]))
		return nil
	})
	return s
}

func snapDiff(a, b Snap) []string {
	var out []string
	for p, v := range a {
		if w, ok := b[p]; !ok {
			out = append(out, "deleted "+p)
		} else if w != v {
			out = append(out, "modified "+p)
		}
	}
	for p := range b {
		if _, ok := a[p]; !ok {
			out = append(out, "created "+p)
		}
	}
	sort.Strings(out)
	return out
}

func readFile(p string) string {
	b, _ := os.ReadFile(p)
	return string(b)
}

// parallelFor runs f(i) for i in [0,n) on up to 16 workers, deterministic in its results
func parallelFor(n int, f func(i int)) {
	var wg sync.WaitGroup
	sem := make(chan struct{}, 14)
	for i := 0; i < n; i++ {
		wg.Add(1)
		sem <- struct{}{}
		go func(i int) {
			defer wg.Done()
			defer func() { <-sem }()
			f(i)
		}(i)
	}
	wg.Wait()
}

func mkScratch(env *Env, prefix string) string {
	d, err := os.MkdirTemp(env.Work, prefix)
	if err != nil {
		panic(err)
	}
	return d
}

// runWithTimeout runs cmd and kills it after the given number of seconds.
func runWithTimeout(cmd *exec.Cmd, secs int) error {
	if err := cmd.Start(); err != nil {
		return err
	}
	done := make(chan error, 1)
	go func() { done <- cmd.Wait() }()
	select {
	case err := <-done:
		return err
	case <-time.After(time.Duration(secs) * time.Second):
		_ = cmd.Process.Kill()
		<-done
		return fmt.Errorf("timeout")
	}
}
