package main

import (
	"fmt"
	"sort"
	"strings"
)

// Assembly programs as trees, their rendering to text and their PLAIN READING as a
// regular expression (prefix form of coq/Regex/Re.v).  The plain reading never looks
// at the rendered text; it is the specification side of C01/C04/C05/C06/C07.

type Item struct {
	Kind    string // entry | assemble | cmdline | concat | store | append | include | define | comment | blank
	Text    string // entry text, stored name, include file name, definition name, comment text
	Value   string // definition value
	CmdType string
	Kids    []*Item
}

type IncFile struct {
	Name     string // without extension
	Dir      string // "include" or "exclude"
	Prefixes []string
	Suffixes []string
	Body     []*Item
	Flags    string
}

type Prog struct {
	Flags    string // "", "i", "s", "is"
	Prefixes []string
	Suffixes []string
	Body     []*Item
	Files    map[string]*IncFile
	Cfg      [6]string // evasion unix, windows; suffix unix, windows; no-space suffix unix, windows
	CfgMode  string    // present | absent | empty | malformed | mistyped
	CfgBad   int       // mistyped: which value is a sequence/mapping instead of a string
	Features map[string]bool
	// an entry with a hand-written inline flag group was added: the plain reading does not cover it
	// (the final passes strip such groups), only the C02 shape of the output is judged
	InlineFlags bool
}

func (p *Prog) feat(f string) {
	if p.Features == nil {
		p.Features = map[string]bool{}
	}
	p.Features[f] = true
}

// ---------- rendering ----------

type renderOpts struct {
	r      *Rng
	messy  bool // random indentation, tabs, CRLF, comments and blank lines
	indent int
}

func (o *renderOpts) lead(depth int) string {
	if o.r == nil || !o.messy {
		return strings.Repeat("  ", depth)
	}
	return o.r.Pick([]string{"", "  ", "    ", "\t", " \t", strings.Repeat("  ", depth)})
}

func (o *renderOpts) eol() string {
	if o.r != nil && o.messy && o.r.Chance(1, 12) {
		return "\r\n"
	}
	return "\n"
}

func (o *renderOpts) sp() string {
	if o.r != nil && o.messy {
		return o.r.Pick([]string{" ", " ", "  ", "\t"})
	}
	return " "
}

func renderItems(sb *strings.Builder, items []*Item, depth int, o *renderOpts) {
	for _, it := range items {
		if o.r != nil && o.messy && o.r.Chance(1, 8) {
			sb.WriteString(o.lead(depth) + o.r.Pick([]string{"##! a comment", "", "   ", "##! note: x|y", "##!"}) + o.eol())
		}
		switch it.Kind {
		case "entry":
			sb.WriteString(o.lead(depth) + it.Text + o.eol())
		case "assemble":
			sb.WriteString(o.lead(depth) + "##!>" + o.sp() + "assemble" + o.eol())
			renderItems(sb, it.Kids, depth+1, o)
			sb.WriteString(o.lead(depth) + "##!<" + o.eol())
		case "cmdline":
			sb.WriteString(o.lead(depth) + "##!>" + o.sp() + "cmdline" + o.sp() + it.CmdType + o.eol())
			renderItems(sb, it.Kids, depth+1, o)
			sb.WriteString(o.lead(depth) + "##!<" + o.eol())
		case "concat":
			sb.WriteString(o.lead(depth) + "##!=>" + o.eol())
		case "store":
			sb.WriteString(o.lead(depth) + "##!=<" + o.sp() + it.Text + o.eol())
		case "append":
			sb.WriteString(o.lead(depth) + "##!=>" + o.sp() + it.Text + o.eol())
		case "include":
			sb.WriteString(o.lead(depth) + "##!>" + o.sp() + "include" + o.sp() + it.Text + o.eol())
		case "define":
			sb.WriteString(o.lead(depth) + "##!>" + o.sp() + "define" + o.sp() + it.Text + o.sp() + it.Value + o.eol())
		case "comment":
			sb.WriteString(o.lead(depth) + "##! " + it.Text + o.eol())
		case "blank":
			sb.WriteString(o.eol())
		case "raw":
			sb.WriteString(it.Text + o.eol())
		}
	}
}

func renderFile(flags string, prefixes, suffixes []string, body []*Item, o *renderOpts) string {
	var sb strings.Builder
	if flags != "" {
		sb.WriteString("##!+ " + flags + o.eol())
	}
	for _, p := range prefixes {
		sb.WriteString("##!^ " + p + o.eol())
	}
	for _, s := range suffixes {
		sb.WriteString("##!$ " + s + o.eol())
	}
	renderItems(&sb, body, 0, o)
	return sb.String()
}

func (p *Prog) Render(o *renderOpts) string {
	return renderFile(p.Flags, p.Prefixes, p.Suffixes, p.Body, o)
}

func (f *IncFile) Render(o *renderOpts) string {
	return renderFile(f.Flags, f.Prefixes, f.Suffixes, f.Body, o)
}

// Tree returns the files of the CRS root for this program (the program itself as regex-assembly/<id>.ra).
func (p *Prog) Tree(id string, text string, o *renderOpts) Tree {
	t := Tree{"regex-assembly/" + id + ".ra": text, "regex-assembly/include/": "", "regex-assembly/exclude/": ""}
	for _, f := range p.Files {
		t["regex-assembly/"+f.Dir+"/"+f.Name+".ra"] = f.Render(o)
	}
	switch p.CfgMode {
	case "present":
		t["regex-assembly/toolchain.yaml"] = renderConfig(p.Cfg)
	case "empty":
		t["regex-assembly/toolchain.yaml"] = ""
	case "malformed":
		t["regex-assembly/toolchain.yaml"] = "patterns: [unclosed\n  anti_evasion: {{{\n"
	case "mistyped":
		// valid YAML, proper patterns, ONE value of the wrong type: the decoder reports an error
		// (after filling the other fields) and the whole file must count as unreadable
		vals := [6]string{}
		for q := range vals {
			vals[q] = yamlQuote(p.Cfg[q])
		}
		vals[p.CfgBad%6] = []string{"[a, b]", "{x: 1}"}[(p.CfgBad/6)%2]
		t["regex-assembly/toolchain.yaml"] = renderConfigRaw(vals)
	}
	return t
}

func yamlQuote(s string) string { return "'" + strings.ReplaceAll(s, "'", "''") + "'" }

func renderConfig(c [6]string) string {
	var q [6]string
	for i := range c {
		q[i] = yamlQuote(c[i])
	}
	return renderConfigRaw(q)
}

// the six values as YAML text (already quoted, or deliberately of another type)
func renderConfigRaw(c [6]string) string {
	return "patterns:\n  anti_evasion:\n    unix: " + c[0] + "\n    windows: " + c[1] +
		"\n  anti_evasion_suffix:\n    unix: " + c[2] + "\n    windows: " + c[3] +
		"\n  anti_evasion_no_space_suffix:\n    unix: " + c[4] + "\n    windows: " + c[5] + "\n"
}

// effective configuration as the model receives it (before TrimSpace, which the model applies itself)
func (p *Prog) EffectiveCfg() [6]string {
	if p.CfgMode == "present" {
		return p.Cfg
	}
	return [6]string{}
}

// model encoding of the include/exclude files
func (p *Prog) FsArg(o *renderOpts, rendered map[string]string) string {
	names := []string{}
	for n := range p.Files {
		names = append(names, n)
	}
	sort.Strings(names)
	parts := []string{}
	for _, n := range names {
		f := p.Files[n]
		d := "i"
		if f.Dir == "exclude" {
			d = "e"
		}
		parts = append(parts, d+":"+hx(f.Name+".ra")+":"+hx(rendered["regex-assembly/"+f.Dir+"/"+f.Name+".ra"]))
	}
	if len(parts) == 0 {
		return "."
	}
	return strings.Join(parts, ";")
}

// ---------- plain reading ----------

// D: a denotation, as prefix-form regex for the verified checker and as fully grouped
// regex text for confirmation of a reported difference on Go's own engine
type D struct {
	rx, txt string
	none    bool   // a stored name that held nothing: appending it adds nothing
	raw     string // the text as the code would copy it raw (entries: ungrouped); "" = txt
}

func catD(a, b D) D { return D{rx: catRX(a.rx, b.rx), txt: a.txt + b.txt} }
func epsD() D       { return D{rx: "e", txt: ""} }
func altD(xs []D) D {
	rxs := make([]string, len(xs))
	txts := make([]string, len(xs))
	for i, x := range xs {
		rxs[i] = x.rx
		txts[i] = x.txt
	}
	return D{rx: altRX(rxs), txt: "(?:" + strings.Join(txts, "|") + ")"}
}
func catAllD(xs []D) D {
	out := epsD()
	for i := len(xs) - 1; i >= 0; i-- {
		out = catD(xs[i], out)
	}
	return out
}

type denCtx struct {
	rawSingle bool // the code's behaviour instead of the plain reading: a segment of ONE pending line is copied raw (txt only)
	p         *Prog
	fold      bool
	dotNL     bool
	defs      map[string]string // definitions visible to the text being read
	stash     map[string]D
	err       error
	depth     int
}

func (c *denCtx) fail(e error) {
	if c.err == nil {
		c.err = e
	}
}

// own textual substitution of definitions (the harness's implementation, not the model's)
func substDefs(text string, defs map[string]string) string {
	if len(defs) == 0 {
		return text
	}
	for i := 0; i < 10; i++ {
		changed := false
		names := make([]string, 0, len(defs))
		for n := range defs {
			names = append(names, n)
		}
		sort.Strings(names)
		for _, n := range names {
			needle := "{{" + n + "}}"
			if strings.Contains(text, needle) {
				text = strings.ReplaceAll(text, needle, defs[n])
				changed = true
			}
		}
		if !changed {
			break
		}
	}
	return text
}

func collectDefs(items []*Item, into map[string]string) {
	for _, it := range items {
		if it.Kind == "define" {
			if _, ok := into[it.Text]; !ok {
				into[it.Text] = it.Value
			}
		}
		collectDefs(it.Kids, into)
	}
}

func (c *denCtx) entryD(text string) D {
	t := substDefs(text, c.defs)
	rx, err := textToRX(t, c.fold, c.dotNL)
	if err != nil {
		c.fail(fmt.Errorf("entry %q: %w", text, err))
		return D{rx: "v", txt: "[^\\x00-\\x{10FFFF}]"}
	}
	return D{rx: rx, txt: "(?:" + t + ")", raw: t}
}

func spaceRX() string { return "c 3 9 10 12 13 32 32" }

// the specification of one cmdline word (C04)
func (c *denCtx) cmdWordD(word string, cmdType string) D {
	cfg := c.p.EffectiveCfg()
	idx := 0
	if cmdType == "windows" {
		idx = 1
	}
	ev, suf, ns := strings.TrimSpace(cfg[idx]), strings.TrimSpace(cfg[2+idx]), strings.TrimSpace(cfg[4+idx])
	if strings.HasPrefix(word, "'") {
		return c.entryD(word[1:])
	}
	evD := epsD()
	if ev != "" {
		evD = c.entryD(ev)
	}
	body := word
	var suffixD *D
	if len(word) >= 2 {
		last := word[len(word)-1]
		nb := 0
		for i := len(word) - 2; i >= 0 && word[i] == '\\'; i-- {
			nb++
		}
		if nb%2 == 1 {
			body = word[:len(word)-2] + string(last) // an escaped marker keeps the character
		} else if last == '@' {
			body = word[:len(word)-1]
			if suf != "" {
				d := c.entryD(suf)
				suffixD = &d
			}
		} else if last == '~' {
			body = word[:len(word)-1]
			if ns != "" {
				d := c.entryD(ns)
				suffixD = &d
			}
		}
	}
	parts := []D{}
	for i := 0; i < len(body); i++ {
		if i > 0 {
			parts = append(parts, evD)
		}
		ch := body[i]
		if ch == ' ' {
			parts = append(parts, D{rx: catRX(spaceRX(), "s "+spaceRX()), txt: "\\s+"})
		} else {
			r := rune(ch)
			q := regexpQuote(ch)
			if c.fold {
				parts = append(parts, D{rx: clsRX(foldOrbit(r)), txt: q})
			} else {
				parts = append(parts, D{rx: clsRX([]rune{r, r}), txt: q})
			}
		}
	}
	if suffixD != nil {
		parts = append(parts, evD, *suffixD)
	}
	return catAllD(parts)
}

func regexpQuote(ch byte) string {
	if strings.ContainsRune(`\.+*?()|[]{}^$`, rune(ch)) {
		return "\\" + string(ch)
	}
	return string(ch)
}

// block reading: (denotation, present); present=false when the block contributes nothing
func (c *denCtx) blockD(items []*Item) (D, bool) {
	out := epsD()
	outSet := false
	pending := []D{}
	flush := func() {
		if len(pending) > 0 {
			a := altD(pending)
			if c.rawSingle && len(pending) == 1 {
				a = pending[0]
				if a.raw != "" {
					a.txt = a.raw
				}
				a.raw = ""
			}
			if outSet {
				out = catD(out, a)
			} else {
				out, outSet = a, true
			}
			pending = nil
		}
	}
	var walk func(c *denCtx, items []*Item)
	walk = func(c *denCtx, items []*Item) {
		for _, it := range items {
			switch it.Kind {
			case "entry":
				pending = append(pending, c.entryD(it.Text))
			case "assemble":
				if d, ok := c.blockD(it.Kids); ok {
					pending = append(pending, d)
				}
			case "cmdline":
				words := []D{}
				c.cmdWords(it.Kids, it.CmdType, &words)
				cd := altD(words)
				wt := make([]string, len(words))
				for i, w := range words {
					wt[i] = w.txt
				}
				cd.raw = strings.Join(wt, "|") // the result of a cmdline block is not grouped
				pending = append(pending, cd)
			case "concat":
				flush()
			case "store":
				flush()
				if outSet {
					c.stash[it.Text] = out
				} else {
					c.stash[it.Text] = D{rx: "e", none: true}
				}
				out, outSet = epsD(), false
			case "append":
				flush()
				st, ok := c.stash[it.Text]
				if !ok {
					c.fail(fmt.Errorf("unknown stored name %q", it.Text))
					st = D{rx: "v", txt: "[^\\x00-\\x{10FFFF}]"}
				}
				if st.none {
					continue // nothing was stored under that name: the buffer stays as it is
				}
				if outSet {
					out = catD(out, st)
				} else {
					out, outSet = st, true
				}
			case "include":
				f := c.p.Files[it.Text]
				if f == nil {
					c.fail(fmt.Errorf("unknown include %q", it.Text))
					continue
				}
				sub := c.withFileDefs(f)
				if len(f.Prefixes) == 0 && len(f.Suffixes) == 0 {
					walk(sub, f.Body) // typing the lines in place
				} else if c.rawSingle {
					// the parser emits such a file as a local block: prefix / ##!=> ... body ... ##!=> suffix / ##!=>
					var syn []*Item
					for _, p := range f.Prefixes {
						syn = append(syn, &Item{Kind: "entry", Text: p}, &Item{Kind: "concat"})
					}
					syn = append(syn, f.Body...)
					if len(f.Suffixes) > 0 {
						syn = append(syn, &Item{Kind: "concat"})
					}
					for _, x := range f.Suffixes {
						syn = append(syn, &Item{Kind: "entry", Text: x}, &Item{Kind: "concat"})
					}
					sub.rawSingle = true
					if d, ok := sub.blockD(syn); ok {
						pending = append(pending, d)
					}
				} else {
					body, ok := sub.blockD(f.Body)
					parts := []D{}
					for _, p := range f.Prefixes {
						parts = append(parts, sub.entryD(p))
					}
					if ok {
						parts = append(parts, body)
					}
					for _, s := range f.Suffixes {
						parts = append(parts, sub.entryD(s))
					}
					pending = append(pending, catAllD(parts))
				}
				if sub.err != nil {
					c.fail(sub.err)
				}
			}
		}
	}
	walk(c, items)
	if !outSet && len(pending) == 0 {
		return epsD(), false
	}
	if c.rawSingle {
		// Complete: the buffer is grouped as a whole, the remaining lines are always joined and grouped
		if outSet {
			out.txt = "(?:" + out.txt + ")"
		}
		if len(pending) > 0 {
			a := altD(pending)
			if outSet {
				out = catD(out, a)
			} else {
				out, outSet = a, true
			}
		}
		return out, true
	}
	flush()
	return out, true
}

// the text of an included file sees its OWN definitions first, then the includer's
func (c *denCtx) withFileDefs(f *IncFile) *denCtx {
	own := map[string]string{}
	collectDefs(f.Body, own)
	merged := map[string]string{}
	for k, v := range c.defs {
		merged[k] = v
	}
	for k, v := range own {
		merged[k] = substDefs(v, own)
	}
	return &denCtx{p: c.p, fold: c.fold, dotNL: c.dotNL, defs: merged, stash: c.stash, depth: c.depth + 1, rawSingle: c.rawSingle}
}

func (c *denCtx) cmdWords(items []*Item, cmdType string, words *[]D) {
	for _, it := range items {
		switch it.Kind {
		case "entry":
			*words = append(*words, c.cmdWordD(substDefs(it.Text, c.defs), cmdType))
		case "include":
			f := c.p.Files[it.Text]
			if f != nil && len(f.Prefixes) == 0 && len(f.Suffixes) == 0 {
				sub := c.withFileDefs(f)
				sub.cmdWords(f.Body, cmdType, words)
				if sub.err != nil {
					c.fail(sub.err)
				}
			} else {
				c.fail(fmt.Errorf("include with prefix/suffix inside cmdline"))
			}
		case "assemble", "cmdline":
			c.fail(errUnsupported) // nested block inside cmdline: outside the generated fragment
		}
	}
}

// PlainReadingRaw: NOT the plain reading but what the code's raw copy of single-line segments makes
// of the program (text only), used to recognise the recorded finding C01-single-line-raw exactly:
// prefixes and suffixes are pasted raw, the body is grouped, a segment of one pending line is copied raw
func (p *Prog) PlainReadingRaw() (txt string, ok bool) {
	defs := map[string]string{}
	collectDefs(p.Body, defs)
	c := &denCtx{p: p, fold: strings.Contains(p.Flags, "i"), dotNL: strings.Contains(p.Flags, "s"), defs: defs, stash: map[string]D{}, rawSingle: true}
	body, present := c.blockD(p.Body)
	var sb strings.Builder
	for _, x := range p.Prefixes {
		sb.WriteString(substDefs(x, defs))
	}
	if present {
		sb.WriteString("(?:" + body.txt + ")")
	}
	for _, x := range p.Suffixes {
		sb.WriteString(substDefs(x, defs))
	}
	if c.err != nil || sb.Len() == 0 {
		return "", false
	}
	fl := ""
	if c.fold {
		fl += "i"
	}
	if c.dotNL {
		fl += "s"
	}
	if fl != "" {
		return "(?" + fl + ")" + sb.String(), true
	}
	return sb.String(), true
}

// PlainReading: the regular expression the file describes.  rx has the flags applied (every
// entry is parsed with them); txt carries them as a leading flag group.  ok=false: the file
// describes nothing (empty output expected).
func (p *Prog) PlainReading() (d D, ok bool, err error) {
	defs := map[string]string{}
	collectDefs(p.Body, defs)
	c := &denCtx{p: p, fold: strings.Contains(p.Flags, "i"), dotNL: strings.Contains(p.Flags, "s"), defs: defs, stash: map[string]D{}}
	body, present := c.blockD(p.Body)
	parts := []D{}
	for _, x := range p.Prefixes {
		parts = append(parts, c.entryD(x))
	}
	if present {
		parts = append(parts, body)
	}
	for _, x := range p.Suffixes {
		parts = append(parts, c.entryD(x))
	}
	if c.err != nil {
		return D{}, false, c.err
	}
	if len(parts) == 0 {
		return D{}, false, nil
	}
	d = catAllD(parts)
	fl := ""
	if c.fold {
		fl += "i"
	}
	if c.dotNL {
		fl += "s"
	}
	if fl != "" {
		d.txt = "(?" + fl + ")" + d.txt
	}
	return d, true, nil
}
