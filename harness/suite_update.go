package main

import (
	"fmt"
	"os"
	"path/filepath"
	"strconv"
	"strings"
)

func init() {
	register("update_cli", suiteUpdateCLI)
}

// ---------- generated rules files in CRS layout ----------

type genSecRule struct {
	Line     int    // index of the SecRule line in the file
	Operator string // "@rx", "!@rx", "@pm", ...
	Operand  string
	Tail     string // what follows `" \` on the line (normally empty; may be spaces)
}

type genRule struct {
	ID    string
	Chain []genSecRule // [0] = the rule itself, then chained rules
}

type genRulesFile struct {
	Name  string
	Lines []string
	NL    string
	Final bool // final newline
	Rules []genRule
}

func (f *genRulesFile) Bytes() string {
	s := strings.Join(f.Lines, f.NL)
	if f.Final {
		s += f.NL
	}
	return s
}

var oldOperands = []string{"^old$", "foo|bar", "a\\\"b", "x y", "(?i)abc", "\\x5c", "[\\s\\x0b]+", ""}

func genRulesFileFor(r *Rng, prefix string, baseID int) *genRulesFile {
	f := &genRulesFile{Name: "REQUEST-" + prefix + "-TEST-" + strconv.Itoa(r.Intn(1000)) + ".conf", NL: "\n", Final: r.Chance(4, 5)}
	if r.Chance(1, 5) {
		f.NL = "\r\n"
	}
	add := func(l string) int { f.Lines = append(f.Lines, l); return len(f.Lines) - 1 }
	add("# ------------------------------------------------------------------------")
	add("# OWASP CRS ver.4.0.0")
	add("")
	n := r.Range(1, 5)
	for i := 0; i < n; i++ {
		id := strconv.Itoa(baseID + i*10)
		if i > 0 && r.Chance(1, 6) {
			id = strconv.Itoa(baseID+(i+r.Intn(2))*10) + strconv.Itoa(r.Intn(10)) // seven digits sharing a neighbour's six
		}
		rule := genRule{ID: id}
		if r.Chance(1, 8) {
			// a commented-out copy of the rule stands before it
			add("#SecRule ARGS \"@rx " + r.Pick(oldOperands) + "\" \\")
			add("#    \"id:" + id + ",\\")
			add("#    phase:2,\\")
			add("#    severity:'CRITICAL'\"")
			add("")
		}
		if r.Chance(1, 4) {
			add("# This rule (id:" + r.Pick([]string{id, strconv.Itoa(baseID + 990), id + "1"}) + ") is a stricter sibling of " + strconv.Itoa(baseID))
		}
		if r.Chance(1, 3) {
			add("#")
		}
		chainLen := r.Intn(4)
		if r.Chance(1, 2) {
			chainLen = 0
		}
		indent := ""
		for c := 0; c <= chainLen; c++ {
			op := "@rx"
			switch r.Intn(10) {
			case 0:
				op = "!@rx"
			case 1:
				op = r.Pick([]string{"@pm", "@streq", "@eq", "@pmFromFile"})
			}
			operand := r.Pick(oldOperands)
			if (op == "@rx" || op == "!@rx") && r.Chance(1, 12) {
				operand = "old \\\"@rx inner" // an operand written by an earlier update whose regex contained the marker text
			}
			tail := ""
			if r.Chance(1, 12) {
				tail = r.Pick([]string{" ", "  ", "\t"})
			}
			sr := genSecRule{Operator: op, Operand: operand, Tail: tail}
			sr.Line = add(indent + "SecRule " + r.Pick([]string{"ARGS", "REQUEST_URI", "ARGS_NAMES|ARGS", "TX:1"}) + " \"" + op + " " + operand + "\" \\" + tail)
			if c == 0 {
				add(indent + "    \"id:" + id + ",\\")
				add(indent + "    phase:2,\\")
				add(indent + "    block,\\")
				if r.Chance(1, 3) {
					add(indent + "    msg:'Rule " + id + " \"@rx quoted\"',\\")
				}
				add(indent + "    ver:'OWASP_CRS/4.0.0',\\")
			} else {
				add(indent + "    \"t:none,\\")
			}
			if c < chainLen {
				add(indent + "    chain\"")
				indent += "    "
			} else {
				add(indent + "    severity:'CRITICAL'\"")
			}
			rule.Chain = append(rule.Chain, sr)
		}
		add("")
		f.Rules = append(f.Rules, rule)
	}
	if r.Chance(1, 3) {
		add("SecMarker \"END-" + prefix + "\"")
	}
	return f
}

var raBodies = []string{"newa\nnewb\n", "select \n", "##!+ i\nunion select \nunion all \n", "tab\t\n", " lead\n", "a+b$\n", "say \"hi\"\n", "back\\\\slash\n", "x y\n\\s+z\n", "##!+ i\nfoo\nfob\n", "\"@rx inner\n", "\" \\\\\n",
	"##!> assemble\n  a\n  ##!=>\n  b\n##!<\n", "$1\n${2}\n", "^anchored$\n", "price\\$\n"}

type updateCase struct {
	file    *genRulesFile
	ruleIdx int
	chainK  int
	arg     string
	raName  string
	raBody  string
	decoy   *genRulesFile
}

func suiteUpdateCLI(env *Env, res *Result) {
	res.Rule = "CRS trees with one rules file in CRS layout (1..5 rules, chains 0..3, negated and other operators, comments mentioning ids, 7-digit neighbours, LF/CRLF, missing final newline, trailing blanks after the line continuation) and a second rules file with another prefix; assembly file for one target (rule or chain offset, sometimes beyond the chain or for a missing rule); histories: update, compare, update again, then one byte of the stored operand flipped / one byte appended to it / its last byte removed + compare; non-trivial = the update succeeds; distinct by case hash"
	r := NewRng(env.Seed)
	n := env.N(250, 4000)
	cases := make([]updateCase, n)
	for i := range cases {
		f := genRulesFileFor(r, "942", 942100)
		c := updateCase{file: f, decoy: genRulesFileFor(r, "932", 932100)}
		c.ruleIdx = r.Intn(len(f.Rules))
		for len(f.Rules[c.ruleIdx].ID) != 6 {
			c.ruleIdx = r.Intn(len(f.Rules))
		}
		rule := f.Rules[c.ruleIdx]
		c.chainK = 0
		if len(rule.Chain) > 1 && r.Chance(2, 3) {
			c.chainK = r.Range(1, len(rule.Chain)-1)
		}
		if r.Chance(1, 10) {
			c.chainK = len(rule.Chain) + r.Intn(2) // beyond the chain
		}
		c.arg = rule.ID
		if r.Chance(1, 15) {
			c.arg = "942990" // no such rule
		}
		if c.chainK > 0 {
			c.arg += "-chain" + strconv.Itoa(c.chainK)
		}
		c.raName = c.arg + ".ra"
		if r.Chance(1, 3) {
			c.arg += ".ra"
		}
		c.raBody = r.Pick(raBodies)
		cases[i] = c
	}
	base := mkScratch(env, "upd")
	defer os.RemoveAll(base)
	type obs struct {
		gen                  CLIResult
		upd, cmp, upd2, cmp2 CLIResult
		after, after2        string
		otherChanged         []string
		flipped              string
	}
	results := make([]obs, n)
	parallelFor(n, func(i int) {
		c := cases[i]
		root := filepath.Join(base, fmt.Sprintf("t%d", i))
		rulesPath := filepath.Join(root, "rules", c.file.Name)
		writeTree(root, Tree{"regex-assembly/" + c.raName: c.raBody, "rules/" + c.file.Name: c.file.Bytes(), "rules/" + c.decoy.Name: c.decoy.Bytes(),
			"regex-assembly/include/": "", "util/readme.txt": "id:942100 \"@rx keep\" \\\n"})
		var o obs
		o.gen = runCLI(env, root, "", "-d", root, "regex", "generate", c.arg)
		before := snapshot(root)
		o.upd = runCLI(env, root, "", "-d", root, "regex", "update", c.arg)
		o.after = readFile(rulesPath)
		afterSnap := snapshot(root)
		for _, d := range snapDiff(before, afterSnap) {
			if d != "modified rules/"+c.file.Name {
				o.otherChanged = append(o.otherChanged, d)
			}
		}
		if o.upd.Exit == 0 {
			o.cmp = runCLI(env, root, "", "-d", root, "regex", "compare", c.arg)
			o.upd2 = runCLI(env, root, "", "-d", root, "regex", "update", c.arg)
			o.after2 = readFile(rulesPath)
			// flip one byte of the stored operand
			if o.gen.Exit == 0 && len(o.gen.Stdout) > 0 {
				idx := strings.Index(o.after2, o.gen.Stdout+"\" \\")
				if idx >= 0 {
					b := []byte(o.after2)
					end := idx + len(o.gen.Stdout)
					switch mode := i % 3; {
					case mode == 1:
						// one byte more at the end of the stored operand (the generated regex is a proper prefix of it)
						b = append(append(append([]byte{}, b[:end]...), 'z'), b[end:]...)
					case mode == 2 && len(o.gen.Stdout) >= 2:
						// the last byte of the stored operand missing (it is a proper prefix of the generated regex)
						b = append(append([]byte{}, b[:end-1]...), b[end:]...)
					default:
						pos := idx + len(o.gen.Stdout)/2
						if b[pos] == 'z' {
							b[pos] = 'y'
						} else {
							b[pos] = 'z'
						}
					}
					o.flipped = string(b)
					_ = os.WriteFile(rulesPath, b, 0o644)
					o.cmp2 = runCLI(env, root, "", "-d", root, "regex", "compare", c.arg)
				}
			}
		}
		results[i] = o
		_ = os.RemoveAll(root)
	})
	var corr []CorrCase
	for i, c := range cases {
		o := results[i]
		rule := c.file.Rules[c.ruleIdx]
		orig := c.file.Bytes()
		input := map[string]interface{}{"rules_file": orig, "arg": c.arg, "assembly": c.raBody}
		idForModel := strings.SplitN(strings.TrimSuffix(c.arg, ".ra"), "-", 2)[0]
		// ---- correspondence with Model/Update.v (the regex is generate's real output) ----
		if o.gen.Exit == 0 {
			impl := exitClass(o.upd)
			if impl == "ok" {
				impl = "OK\t" + hx(o.after)
			} else if o.after != orig {
				impl = "FAIL-BUT-WROTE"
			} else if impl == "crash" {
				impl = "CRASH"
			} else {
				impl = "ERR"
			}
			class := ""
			if o.upd.Exit == 0 {
				class = fmt.Sprintf("updated/chain%d", c.chainK)
			}
			corr = append(corr, CorrCase{Fields: []string{"update", hx(orig), hx(idForModel), strconv.Itoa(c.chainK), hx(o.gen.Stdout)}, Impl: impl,
				Human: fmt.Sprintf("update %s on %q", c.arg, clip(orig, 300)), Class: class})
			if o.upd.Exit == 0 {
				// read back
				corr = append(corr, CorrCase{Fields: []string{"read_current", hx(o.after), hx(idForModel), strconv.Itoa(c.chainK), hx(o.gen.Stdout)},
					Impl:  map[bool]string{true: "UNCHANGED", false: "CHANGED"}[strings.Contains(o.cmp.Stdout, "has not changed")],
					Human: fmt.Sprintf("compare %s after update", c.arg), Class: "compare"})
			}
		}
		// ---- C11 oracle: exactly the addressed operand changes ----
		exists := c.arg[:6] == rule.ID && c.chainK < len(rule.Chain)
		if !exists && (commentMentionsBefore(c.file, rule) || idPrefixBefore(c.file, rule)) {
			continue // classified by the existing-target cases
		}
		if len(o.otherChanged) > 0 {
			res.addFailure(Failure{Kind: "C11", Shape: "update_touches_other_files", Input: input, Detail: strings.Join(o.otherChanged, "; ")})
		}
		if o.gen.Exit != 0 {
			continue
		}
		// C12, whatever line update took for the rule's: after a successful update compare looks at
		// the same line and reports it unchanged
		c12Checked := false
		if o.upd.Exit == 0 {
			c12Checked = true
			if !(o.cmp.Exit == 0 && strings.Contains(o.cmp.Stdout, "has not changed")) {
				shape := "compare_after_update_reports_change"
				if strings.Contains(o.gen.Stdout, "\"@rx ") || strings.Contains(o.gen.Stdout, "\"!@rx ") {
					shape += "_regex_contains_marker"
				}
				res.addFailure(Failure{Kind: "C12", Shape: shape, Input: input,
					Detail: fmt.Sprintf("update exit 0, then compare: exit %d stdout %q", o.cmp.Exit, clip(o.cmp.Stdout, 200))})
			}
		}
		if !exists {
			if o.after != orig {
				shape := "update_wrong_target_chain_beyond"
				if c.arg[:6] != rule.ID {
					shape = "update_wrong_target_missing_rule"
				}
				res.addFailure(Failure{Kind: "C11", Shape: shape, Input: input,
					Detail: fmt.Sprintf("target does not exist but the rules file changed (exit %d)", o.upd.Exit)})
			}
			continue
		}
		target := rule.Chain[c.chainK]
		if target.Operator != "@rx" && target.Operator != "!@rx" {
			if o.after != orig {
				shape := "update_rewrites_non_rx_line"
				if commentMentionsBefore(c.file, rule) && explainedByFirstMention(orig, o.after, rule.ID, c.chainK) {
					shape = "update_confused_by_comment_mentioning_id"
				} else if idPrefixBefore(c.file, rule) && explainedByFirstMention(orig, o.after, rule.ID, c.chainK) {
					shape = "update_id_prefix_confusion"
				}
				res.addFailure(Failure{Kind: "C11", Shape: shape, Input: input, Detail: "target has operator " + target.Operator + " but the file changed"})
			}
			continue
		}
		// expected bytes: same lines, target line with the operand replaced
		lines := append([]string{}, c.file.Lines...)
		old := lines[target.Line]
		mark := "\"" + target.Operator + " "
		p := strings.Index(old, mark)
		q := strings.LastIndex(old, "\" \\")
		exp := old[:p+len(mark)] + o.gen.Stdout + old[q:]
		lines[target.Line] = exp
		ef := *c.file
		ef.Lines = lines
		want := ef.Bytes()
		if o.upd.Exit != 0 {
			// a failing update must leave the file alone (C16); for C11 a failure on an existing rx target is a miss
			shape := "update_fails_on_valid_target"
			if commentMentionsBefore(c.file, rule) {
				shape = "update_confused_by_comment_mentioning_id"
			} else if idPrefixBefore(c.file, rule) {
				shape = "update_id_prefix_confusion"
			}
			if strings.Contains(target.Operand, "\"@rx ") {
				shape = "update_operand_contains_marker"
			}
			res.addFailure(Failure{Kind: "C11", Shape: shape, Input: input, Detail: fmt.Sprintf("exit %d: %s", o.upd.Exit, clip(o.upd.Stderr, 300))})
			continue
		}
		if o.after != want {
			shape := "update_changes_other_bytes"
			gotLines := strings.Split(o.after, "\n")
			wantLines := strings.Split(want, "\n")
			// the same file with everything after the continuation of the target line cut off
			cut := append([]string{}, lines...)
			cut[target.Line] = exp[:strings.LastIndex(exp, "\" \\")+3]
			cf := *c.file
			cf.Lines = cut
			wantCut := cf.Bytes()
			if c.file.NL == "\r\n" {
				// the CR of the target line is part of what follows the continuation
				parts := strings.Split(wantCut, "\r\n")
				if target.Line < len(parts)-1 || c.file.Final {
					wantCut = strings.Join(parts[:target.Line+1], "\r\n") + "\n" + strings.Join(parts[target.Line+1:], "\r\n")
				}
			}
			_ = gotLines
			_ = wantLines
			switch {
			case commentMentionsBefore(c.file, rule) && explainedByFirstMention(orig, o.after, rule.ID, c.chainK):
				shape = "update_confused_by_comment_mentioning_id"
			case o.after == wantCut:
				shape = "update_drops_text_after_continuation"
			case strings.Contains(target.Operand, "\"@rx ") || strings.Contains(o.gen.Stdout, "\"@rx "):
				shape = "update_operand_contains_marker"
			case idPrefixBefore(c.file, rule) && explainedByFirstMention(orig, o.after, rule.ID, c.chainK):
				shape = "update_id_prefix_confusion"
			}
			res.addFailure(Failure{Kind: "C11", Shape: shape, Input: input, Detail: fmt.Sprintf("got %q want %q", clip(diffAround(o.after, want), 300), clip(diffAround(want, o.after), 300))})
			if shape == "update_changes_other_bytes" && !strings.Contains(o.after, "\"@rx "+o.gen.Stdout+"\" \\") && !strings.Contains(o.after, "\"!@rx "+o.gen.Stdout+"\" \\") {
				// C12: the operand stored by a successful update is not generate's output
				res.addFailure(Failure{Kind: "C12", Shape: "stored_operand_differs_from_generated", Input: input,
					Detail: fmt.Sprintf("generate prints %q; the file has %q", clip(o.gen.Stdout, 200), clip(diffAround(o.after, want), 300))})
				// C02: what stands between the quotes of the SecRule line is not the expression that was generated
				res.addFailure(Failure{Kind: "C02", Shape: "c02_operand_between_the_quotes_is_not_the_generated_regex", Input: input,
					Detail: fmt.Sprintf("generate prints %q; the file has %q", clip(o.gen.Stdout, 200), clip(diffAround(o.after, want), 300))})
			}
			continue
		}
		// ---- C12 oracles ----
		markerShape := func(base string) string {
			if strings.Contains(o.gen.Stdout, "\"@rx ") || strings.Contains(o.gen.Stdout, "\"!@rx ") {
				return base + "_regex_contains_marker"
			}
			return base
		}
		if !c12Checked && !(o.cmp.Exit == 0 && strings.Contains(o.cmp.Stdout, "has not changed")) {
			res.addFailure(Failure{Kind: "C12", Shape: markerShape("compare_after_update_reports_change"), Input: input,
				Detail: fmt.Sprintf("exit %d stdout %q", o.cmp.Exit, clip(o.cmp.Stdout, 200))})
		}
		if o.after2 != o.after {
			res.addFailure(Failure{Kind: "C12", Shape: markerShape("second_update_not_noop"), Input: input, Detail: clip(diffAround(o.after2, o.after), 300)})
		}
		if o.flipped != "" && (o.cmp2.Exit == 0 || !strings.Contains(o.cmp2.Stdout, "has changed")) {
			res.addFailure(Failure{Kind: "C12", Shape: "compare_misses_changed_byte", Input: input,
				Detail: fmt.Sprintf("after flipping one byte compare exits %d with %q", o.cmp2.Exit, clip(o.cmp2.Stdout, 200))})
		}
	}
	compareWithModel(env, res, corr)
}

// The recorded finding C11-id-text-elsewhere, as narrowly as the code's behaviour allows: the rule
// is located at the FIRST line containing the text id:NNNNNN; for chain offset 0 the line directly
// above that text is rewritten, for a larger offset a line below it.  A change anywhere else is not
// that finding.
func explainedByFirstMention(orig, after, id string, chainK int) bool {
	a, b := strings.Split(orig, "\n"), strings.Split(after, "\n")
	if len(a) != len(b) {
		return false
	}
	first := -1
	for i, l := range a {
		if strings.Contains(l, "id:"+id) {
			first = i
			break
		}
	}
	if first < 0 {
		return false
	}
	for i := range a {
		if a[i] == b[i] {
			continue
		}
		if chainK == 0 && i != first-1 {
			return false
		}
		if chainK > 0 && i <= first {
			return false
		}
	}
	return true
}

func commentMentionsBefore(f *genRulesFile, rule genRule) bool {
	first := rule.Chain[0].Line
	for i := 0; i < first; i++ {
		if strings.Contains(f.Lines[i], "id:"+rule.ID) {
			return true
		}
	}
	return false
}

// a rule whose longer id starts with the target's id stands before the target
func idPrefixBefore(f *genRulesFile, rule genRule) bool {
	for _, other := range f.Rules {
		if other.ID != rule.ID && strings.HasPrefix(other.ID, rule.ID) && other.Chain[0].Line < rule.Chain[0].Line {
			return true
		}
	}
	return false
}

func diffAround(a, b string) string {
	i := 0
	for i < len(a) && i < len(b) && a[i] == b[i] {
		i++
	}
	s := i - 40
	if s < 0 {
		s = 0
	}
	e := i + 80
	if e > len(a) {
		e = len(a)
	}
	return a[s:e]
}
