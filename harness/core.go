package main

import (
	"bufio"
	"bytes"
	"crypto/sha256"
	"encoding/hex"
	"encoding/json"
	"fmt"
	"os"
	"os/exec"
	"path/filepath"
	"sort"
	"strings"
)

// ---------- encoding shared with ocaml/driver.ml ----------

func hx(s string) string {
	if len(s) == 0 {
		return "-"
	}
	return hex.EncodeToString([]byte(s))
}

func unhx(s string) string {
	if s == "-" {
		return ""
	}
	b, err := hex.DecodeString(s)
	if err != nil {
		return "<bad hex " + s + ">"
	}
	return string(b)
}

func hxList(l []string) string {
	if len(l) == 0 {
		return "."
	}
	out := make([]string, len(l))
	for i, s := range l {
		out[i] = hx(s)
	}
	return strings.Join(out, ",")
}

func unhxList(s string) []string {
	if s == "." || s == "" {
		return nil
	}
	parts := strings.Split(s, ",")
	for i := range parts {
		parts[i] = unhx(parts[i])
	}
	return parts
}

// ---------- results ----------

type Mismatch struct {
	Case  []string `json:"case"`
	Human string   `json:"human"`
	Impl  string   `json:"impl"`
	Model string   `json:"model"`
}

// Failure: the property itself evaluated on the real implementation failed.
type Failure struct {
	Kind   string      `json:"kind"`
	Shape  string      `json:"shape"` // predicate name used by known_findings.json
	Input  interface{} `json:"input"`
	Detail string      `json:"detail"`
}

type Result struct {
	Suite              string            `json:"suite"`
	Evaluations        int               `json:"evaluations"`
	DistinctNontrivial int               `json:"distinct_nontrivial"`
	Rule               string            `json:"rule"`
	Samples            []interface{}     `json:"samples"`
	Distribution       map[string]int    `json:"distribution"`
	MismatchCount      int               `json:"mismatch_count"`
	Mismatches         []Mismatch        `json:"mismatches"`
	FailureCount       int               `json:"failure_count"`
	Failures           []Failure         `json:"failures"`
	Notes              map[string]string `json:"notes,omitempty"`
}

func newResult(name string) *Result {
	return &Result{Suite: name, Distribution: map[string]int{}, Notes: map[string]string{}, Samples: []interface{}{}, Mismatches: []Mismatch{}, Failures: []Failure{}}
}

func (r *Result) count(key string) { r.Distribution[key]++ }

func (r *Result) addFailure(f Failure) {
	r.FailureCount++
	// keep one example per shape first, then up to 40 in total
	seen := 0
	for _, g := range r.Failures {
		if g.Shape == f.Shape {
			seen++
		}
	}
	if seen < 3 && len(r.Failures) < 60 {
		r.Failures = append(r.Failures, f)
	}
}

func (r *Result) addSample(s interface{}) {
	if len(r.Samples) < 6 {
		r.Samples = append(r.Samples, s)
	}
}

// ---------- running the extracted model ----------

type Env struct {
	Seed    uint64
	Tier    string
	Boost   int // multiplier for case counts (search after a broken tie)
	Bin     string
	Driver  string
	JoinSrv string
	Work    string
	Corpus  string
}

func (e *Env) N(quick, thorough int) int {
	n := quick * 3 // the quick tier runs three times the counts written at the call sites (still well below a minute per check)
	if e.Tier == "thorough" {
		n = thorough
	}
	if e.Boost > 1 {
		n *= e.Boost
	}
	return n
}

// runDriver feeds the cases to the extracted model and returns one output line per case.
func runDriver(env *Env, cases [][]string) ([]string, error) {
	var in bytes.Buffer
	for _, c := range cases {
		in.WriteString(strings.Join(c, "\t"))
		in.WriteByte('\n')
	}
	cmd := exec.Command("/bin/sh", "-c", "ulimit -s unlimited 2>/dev/null; exec \"$0\"", env.Driver)
	cmd.Env = append(os.Environ(), "VERIF_JOINSRV="+env.JoinSrv)
	cmd.Stdin = &in
	var out bytes.Buffer
	cmd.Stdout = &out
	cmd.Stderr = os.Stderr
	if err := cmd.Run(); err != nil {
		return nil, fmt.Errorf("model driver failed: %v", err)
	}
	sc := bufio.NewScanner(&out)
	sc.Buffer(make([]byte, 1<<20), 1<<30)
	var lines []string
	for sc.Scan() {
		lines = append(lines, sc.Text())
	}
	if len(lines) != len(cases) {
		return lines, fmt.Errorf("model driver returned %d lines for %d cases", len(lines), len(cases))
	}
	return lines, nil
}

// runDriverParallel splits the cases over several driver processes (order preserved).
func runDriverParallel(env *Env, cases [][]string, workers int) ([]string, error) {
	if len(cases) < 2*workers {
		return runDriver(env, cases)
	}
	outs := make([]string, len(cases))
	errs := make([]error, workers)
	parallelFor(workers, func(w int) {
		var mine [][]string
		var idx []int
		for i := w; i < len(cases); i += workers {
			mine = append(mine, cases[i])
			idx = append(idx, i)
		}
		o, err := runDriver(env, mine)
		if err != nil {
			errs[w] = err
			return
		}
		for k, i := range idx {
			outs[i] = o[k]
		}
	})
	for _, e := range errs {
		if e != nil {
			return outs, e
		}
	}
	return outs, nil
}

// CorrCase is one correspondence case: the driver fields, the implementation's
// canonical answer, a human-readable rendering and a coverage class.
type CorrCase struct {
	Fields  []string
	Impl    string
	Human   string
	Class   string // non-trivial class name, "" = trivial
	Lenient string // non-empty: a disagreement with the model is counted under this label, not as a mismatch
}

func caseKey(fields []string) string {
	h := sha256.Sum256([]byte(strings.Join(fields, "\t")))
	return string(h[:8])
}

// compareWithModel runs the model on all cases and records disagreements.
func compareWithModel(env *Env, res *Result, cases []CorrCase) []string {
	return compareWithModelX(env, res, cases, false)
}

// compareWithModelAlt: the model may answer "ORDER-DEPENDENT\t<a>\t<b>..." (the set of
// outcomes over the iteration orders of a Go map); the implementation must be in that set.
func compareWithModelAlt(env *Env, res *Result, cases []CorrCase) []string {
	return compareWithModelX(env, res, cases, true)
}

func inAlternatives(model string, impl string) bool {
	rest := strings.TrimPrefix(model, "ORDER-DEPENDENT\t")
	// alternatives are separated by "\x1f" when present, else by scanning prefixes
	for _, alt := range strings.Split(rest, "\x1f") {
		if alt == impl {
			return true
		}
	}
	return false
}

func compareWithModelX(env *Env, res *Result, cases []CorrCase, alt bool) []string {
	fields := make([][]string, len(cases))
	for i, c := range cases {
		fields[i] = c.Fields
	}
	outs, err := runDriverParallel(env, fields, 8)
	if err != nil {
		res.MismatchCount++
		res.Mismatches = append(res.Mismatches, Mismatch{Human: "driver error", Model: err.Error()})
		return nil
	}
	distinct := map[string]bool{}
	for i, c := range cases {
		res.Evaluations++
		if c.Class != "" {
			res.count("class:" + c.Class)
			k := caseKey(c.Fields)
			if !distinct[k] {
				distinct[k] = true
			}
		} else {
			res.count("class:trivial")
		}
		if alt && strings.HasPrefix(outs[i], "ORDER-DEPENDENT\t") {
			// the model says the result depends on a map iteration order: the implementation's result is
			// one of possibly many (the driver samples the orders); it is not compared, the case is
			// handed to the C03 oracle by the suites
			if inAlternatives(outs[i], c.Impl) {
				res.count("order-dependent-accepted")
			} else {
				res.count("order-dependent-outside-sampled-orders")
			}
			continue
		}
		if outs[i] != c.Impl && c.Lenient != "" {
			// outside what the model can answer for (e.g. cyclic definitions: the result depends on the
			// iteration order of TWO independent map loops, of which the driver samples a few)
			res.count("not-compared:" + c.Lenient)
			continue
		}
		if outs[i] != c.Impl {
			res.MismatchCount++
			if len(res.Mismatches) < 12 {
				res.Mismatches = append(res.Mismatches, Mismatch{Case: c.Fields, Human: c.Human, Impl: c.Impl, Model: outs[i]})
			}
		}
		if i%(len(cases)/5+1) == 0 {
			res.addSample(map[string]string{"input": c.Human, "impl": clip(c.Impl, 200), "model": clip(outs[i], 200)})
		}
	}
	res.DistinctNontrivial += len(distinct)
	return outs
}

func clip(s string, n int) string {
	if len(s) > n {
		return s[:n] + fmt.Sprintf("...(%d bytes)", len(s))
	}
	return s
}

// ---------- corpus ----------

func loadCorpus(env *Env, suite string) [][]string {
	var out [][]string
	files, _ := filepath.Glob(filepath.Join(env.Corpus, suite, "*.case"))
	sort.Strings(files)
	for _, f := range files {
		b, err := os.ReadFile(f)
		if err != nil {
			continue
		}
		for _, line := range strings.Split(strings.TrimRight(string(b), "\n"), "\n") {
			if line != "" {
				out = append(out, strings.Split(line, "\t"))
			}
		}
	}
	return out
}

func emit(res *Result) {
	sort.Slice(res.Failures, func(i, j int) bool { return res.Failures[i].Shape < res.Failures[j].Shape })
	enc := json.NewEncoder(os.Stdout)
	enc.SetEscapeHTML(false)
	_ = enc.Encode(res)
}
