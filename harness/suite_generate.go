package main

import (
	"fmt"
	"os"
	"regexp"
	"strconv"
	"strings"
	"unicode/utf8"
)

func init() {
	register("generate", func(env *Env, res *Result) { suiteGenerate(env, res, "mix") })
	register("generate_cmdline", func(env *Env, res *Result) { suiteGenerate(env, res, "cmdline") })
	register("generate_include", func(env *Env, res *Result) { suiteGenerate(env, res, "include") })
	register("generate_defs", func(env *Env, res *Result) { suiteGenerate(env, res, "defs") })
}

type genRun struct {
	p        *Prog
	text     string
	tree     Tree
	root     string
	viaStdin bool
	first    CLIResult
	repeats  []CLIResult
	den      D
	denOK    bool
	denErr   error
	outRX    string
	outRXErr error
}

func implClass(r CLIResult) string {
	switch exitClass(r) {
	case "ok":
		return "OK\t" + hx(r.Stdout)
	case "fail":
		return "ERR"
	case "crash":
		return "CRASH"
	}
	return "HANG"
}

func runGenerate(env *Env, root string, text string, viaStdin bool) CLIResult {
	if viaStdin {
		return runCLI(env, root, text, "regex", "generate", "-")
	}
	return runCLI(env, root, "", "-d", root, "regex", "generate", "942100")
}

// matches R exactly on w with the given context, on Go's own engine
func matchExact(rx string, w string, atStart, atEnd bool) (bool, error) {
	pat := `\A`
	if !atStart {
		pat += `(?s:.)`
	}
	pat += `(?:` + rx + `)`
	if !atEnd {
		pat += `(?s:.)`
	}
	pat += `\z`
	re, err := regexp.Compile(pat)
	if err != nil {
		return false, err
	}
	s := w
	if !atStart {
		s = "\x00" + s
	}
	if !atEnd {
		s = s + "\x00"
	}
	return re.MatchString(s), nil
}

func wordOfVerdict(v string) (string, bool) {
	// DIFFERS <start|mid> <c,c,c|->
	f := strings.Split(v, "\t")
	if len(f) < 3 || f[0] != "DIFFERS" {
		return "", false
	}
	var sb strings.Builder
	if f[2] != "-" {
		for _, t := range strings.Split(f[2], ",") {
			n, _ := strconv.Atoi(t)
			sb.WriteRune(rune(n))
		}
	}
	return sb.String(), true
}

// shape of a C01 failure, from the program and the distinguishing word
func c01Shape(g *genRun, w string) string {
	for _, c := range w {
		if c >= 0x0e && c <= 0x1f && spaceRangeRe.MatchString(g.first.Stdout) {
			return "c01_space_class_range_widened"
		}
	}
	if hasRawSingleLineSegment(g.p.Body, g.p) || explainedByRawCopy(g, w) {
		return "c01_single_line_segment_copied_raw"
	}
	if explainedBySpaceSequence(g, w) {
		return "c01_space_sequence_outside_class"
	}
	if explainedByCaseFoldGroup(g, w) {
		return "c01_casefold_group_stripped"
	}
	if explainedByFlagAfterOptimising(g, w) {
		return "c01_case_flag_applied_after_optimising"
	}
	if strings.Contains(w, "\n") && explainedByDotall(g, w) {
		return "c01_newline_lost_dotall_group_stripped"
	}
	return "c01_other"
}

// The shape of known finding C01-dotall-stripped, as narrowly as it can be observed: the witness
// contains a newline and the difference disappears, in all four contexts, as soon as the dots of
// the output are all allowed to match a newline again, or all forbidden to (the reverse case: the
// file has ##!+ s and the stripped group was (?-s:.), printed for [^\n])
func explainedByDotall(g *genRun, w string) bool {
	// (a) every dot of the output may match a newline again; (b) no dot of the output matches a
	// newline (the leading flag group loses its s): the stripped group was (?s:.) or (?-s:.)
	noS := g.first.Stdout
	if m := leadingFlagsRe.FindStringSubmatch(noS); m != nil {
		fl := strings.ReplaceAll(m[1], "s", "")
		if fl == "" {
			noS = noS[len(m[0]):]
		} else {
			noS = "(?" + fl + ")" + noS[len(m[0]):]
		}
	}
	for _, variant := range []string{"(?s)" + g.first.Stdout, noS} {
		if variant == g.first.Stdout {
			continue
		}
		ok := true
		for _, ctx := range [][2]bool{{true, true}, {true, false}, {false, true}, {false, false}} {
			a, e1 := matchExact(variant, w, ctx[0], ctx[1])
			b, e2 := matchExact(g.den.txt, w, ctx[0], ctx[1])
			if e1 != nil || e2 != nil || a != b {
				ok = false
				break
			}
		}
		if ok {
			return true
		}
	}
	return false
}

// The shape of known finding C01-casefold-group-stripped: the optimiser's printer writes a
// character and its other case as (?i:X); the flag group is stripped and only X is left.  Observed
// as narrowly as possible: the file does NOT ask for case-insensitive matching and the difference
// disappears, in all four contexts, when the output is read case-insensitively.
func explainedByCaseFoldGroup(g *genRun, w string) bool {
	if strings.Contains(g.p.Flags, "i") {
		return false
	}
	for _, ctx := range [][2]bool{{true, true}, {true, false}, {false, true}, {false, false}} {
		a, e1 := matchExact("(?i)"+g.first.Stdout, w, ctx[0], ctx[1])
		b, e2 := matchExact(g.den.txt, w, ctx[0], ctx[1])
		if e1 != nil || e2 != nil || a != b {
			return false
		}
	}
	return true
}

func dropFlag(rx string, flag string) string {
	if m := leadingFlagsRe.FindStringSubmatch(rx); m != nil {
		fl := strings.ReplaceAll(m[1], flag, "")
		if fl == "" {
			return rx[len(m[0]):]
		}
		return "(?" + fl + ")" + rx[len(m[0]):]
	}
	return rx
}

// The shape of known finding C01-case-flag-after-optimising: the optimiser works without the
// flags of the file and (?i) is put in front of its result afterwards; a NEGATED class it computed
// (\W|c -> [^0-9A-Z_abd-z]) then excludes, by case folding, what it was meant to admit.  Observed:
// the file has the i flag, the output contains a negated class, and WITHOUT the i flag output and
// plain reading agree on the witness and on its upper- and lower-case forms in all four contexts.
func explainedByFlagAfterOptimising(g *genRun, w string) bool {
	if !strings.Contains(g.p.Flags, "i") || !strings.Contains(g.first.Stdout, "[^") {
		return false
	}
	out, den := dropFlag(g.first.Stdout, "i"), dropFlag(g.den.txt, "i")
	for _, v := range []string{w, strings.ToUpper(w), strings.ToLower(w)} {
		for _, ctx := range [][2]bool{{true, true}, {true, false}, {false, true}, {false, false}} {
			a, e1 := matchExact(out, v, ctx[0], ctx[1])
			b, e2 := matchExact(den, v, ctx[0], ctx[1])
			if e1 != nil || e2 != nil || a != b {
				return false
			}
		}
	}
	return true
}

var leadingFlagsRe = regexp.MustCompile(`^\(\?([is]+)\)`)

// The shape of known finding C01-space-sequence-outside-class: includeVerticalTabInSpaceClass
// rewrites the text \t\n\f\r<space> to \s\x0b also where it is not inside a bracket expression
// (the five characters as a literal sequence).  Observed as narrowly as possible: the output
// contains \s\x0b outside a bracket expression, and the difference disappears, in all four
// contexts, when exactly those occurrences are turned back into the five characters.
func undoSpaceClassOutsideBrackets(out string) string {
	var sb strings.Builder
	inClass := false
	for i := 0; i < len(out); {
		c := out[i]
		switch {
		case c == '\\' && !inClass && strings.HasPrefix(out[i:], `\s\x0b`):
			sb.WriteString(`\t\n\f\r `)
			i += len(`\s\x0b`)
			continue
		case c == '\\' && i+1 < len(out):
			sb.WriteByte(c)
			sb.WriteByte(out[i+1])
			i += 2
			continue
		case c == '[' && !inClass:
			inClass = true
		case c == ']' && inClass:
			inClass = false
		}
		sb.WriteByte(c)
		i++
	}
	return sb.String()
}

func explainedBySpaceSequence(g *genRun, w string) bool {
	undone := undoSpaceClassOutsideBrackets(g.first.Stdout)
	if undone == g.first.Stdout {
		return false
	}
	for _, ctx := range [][2]bool{{true, true}, {true, false}, {false, true}, {false, false}} {
		a, e1 := matchExact(undone, w, ctx[0], ctx[1])
		b, e2 := matchExact(g.den.txt, w, ctx[0], ctx[1])
		if e1 != nil || e2 != nil || a != b {
			return false
		}
	}
	return true
}

// the difference is exactly what the raw copy of single-line segments produces: the reading of the
// program WITH that rule (prog.go PlainReadingRaw) differs from the plain reading and agrees with
// the output on the witness in all four contexts
func explainedByRawCopy(g *genRun, w string) bool {
	variant, ok := g.p.PlainReadingRaw()
	if !ok || variant == g.den.txt {
		return false
	}
	for _, ctx := range [][2]bool{{true, true}, {true, false}, {false, true}, {false, false}} {
		a, e1 := matchExact(g.first.Stdout, w, ctx[0], ctx[1])
		b, e2 := matchExact(variant, w, ctx[0], ctx[1])
		c, e3 := matchExact(g.den.txt, w, ctx[0], ctx[1])
		if e1 != nil || e2 != nil || e3 != nil || a != b {
			return false
		}
		_ = c
	}
	return true
}

// The shape of known finding C01-single-line-raw, as narrowly as the code's behaviour allows:
// a segment flushed while exactly ONE line is pending is copied raw into the output buffer; that
// is harmless as long as the raw text stays alone in the buffer (the buffer is grouped as a whole
// when the block completes).  It changes the meaning exactly when the raw text needs a group
// (top-level alternation) AND the buffer already holds text or receives more text afterwards.
func hasRawSingleLineSegment(items []*Item, p *Prog) bool {
	found := false
	stashRaw := map[string]bool{}
	var block func(items []*Item)
	block = func(items []*Item) {
		pending := 0
		lastText := ""
		outNonEmpty := false
		rawAlone := false
		flush := func() {
			if pending == 0 {
				return
			}
			if pending == 1 && needsGroup(lastText) {
				if outNonEmpty {
					found = true
				} else {
					rawAlone = true
				}
			} else if rawAlone {
				found = true
			}
			outNonEmpty = true
			pending = 0
		}
		var walk func(items []*Item)
		walk = func(items []*Item) {
			for _, it := range items {
				switch it.Kind {
				case "entry":
					pending++
					lastText = it.Text
				case "assemble":
					block(it.Kids)
					pending++
					lastText = "(?:x)"
				case "cmdline":
					pending++
					lastText = "x|y" // the Join result of a cmdline block is not grouped
				case "concat":
					flush()
				case "store":
					flush()
					stashRaw[it.Text] = rawAlone
					outNonEmpty, rawAlone = false, false
				case "append":
					flush()
					if stashRaw[it.Text] {
						if outNonEmpty {
							found = true
						} else {
							rawAlone = true
						}
					} else if rawAlone {
						found = true
					}
					outNonEmpty = true
				case "include":
					if f := p.Files[it.Text]; f != nil {
						if len(f.Prefixes) == 0 && len(f.Suffixes) == 0 {
							walk(f.Body)
						} else {
							// emitted as a local block: prefix / ##!=> / entries / ##!=> / suffix
							n := 0
							for _, k := range f.Body {
								if k.Kind == "entry" {
									n++
								}
							}
							for _, a := range append(append([]string{}, f.Prefixes...), f.Suffixes...) {
								if needsGroup(a) {
									found = true
								}
							}
							if n == 1 {
								for _, k := range f.Body {
									if k.Kind == "entry" && needsGroup(k.Text) {
										found = true
									}
								}
							}
							pending++
							lastText = "(?:x)"
						}
					}
				}
			}
		}
		walk(items)
		// block end: the remaining lines are joined and grouped; a raw buffer followed by them is grouped as a whole
	}
	block(items)
	return found
}

// would concatenating this text raw next to other text change its meaning?
func needsGroup(t string) bool {
	if hasTopLevelAlt(t) {
		return true
	}
	return false
}

// hand-written programs that every run includes: segments whose optimised alternation begins with
// a group and ends with a group without being ONE group, next to other segments
func generateCorpus() []*Prog {
	e := func(t string) *Item { return &Item{Kind: "entry", Text: t} }
	cat := &Item{Kind: "concat"}
	blk := func(kids ...*Item) *Item { return &Item{Kind: "assemble", Kids: kids} }
	mk := func(flags string, items ...*Item) *Prog {
		return &Prog{Flags: flags, Body: items, CfgMode: "absent", Files: map[string]*IncFile{}}
	}
	return []*Prog{
		mk("", e("(?:ab|cd)x"), e("y(?:ef|gh)"), cat, e("z")),
		mk("", e("w"), cat, e("(?:ab|cd)x"), e("y(?:ef|gh)"), cat, e("z")),
		mk("", blk(e("(?:ab|cd)x"), e("y(?:ef|gh)")), cat, e("tail")),
		mk("i", e("pre"), cat, blk(e("(?:ab|cd)+x"), e("y(?:ef|gh)?"), cat, e("q")), e("other")),
		mk("", e("(?:a+|b)c"), e("d(?:e|f+)"), &Item{Kind: "store", Text: "s"}, e("m"), cat, &Item{Kind: "append", Text: "s"}),
		// the two recorded case-folding findings, so that their shapes are exercised on every run
		mk("", e("a"), e("A"), e("xy")),
		mk("i", e("\\W"), e("c")),
	}
}

var inlineFlagEntries = []string{"(?i:a)$", "(?i)foo$", "^(?s:.)x", "(?i:b).c$", "(?i:a)|^b", "x(?i:y)$", "(?s:.)$", "^(?i:q)", "(?i:a.)$", "(?is:a.)$"}

func suiteGenerate(env *Env, res *Result, focus string) {
	res.Rule = "well-formed assembly programs generated as trees (focus " + focus + ": entries from a regex grammar incl. quotes, backslashes, classes with \\s, anchors, hex escapes, non-ASCII; nested assemble/cmdline blocks to depth 3; ##!=> / ##!=< name / ##!=> name; prefixes, suffixes, flags i/s; include files with own prefixes/suffixes/definitions, nested includes; definitions incl. nested ones; toolchain.yaml present/partial/empty/malformed/absent), rendered with clean or messy layout, run through the built CLI (stdin and file argument) and through the Gallina model with the rassemble.Join oracle; non-trivial = exit 0 with non-empty output; distinct by case hash. Oracles on the real output: language equivalence with the plain reading decided by the verified checker (vertical tab excluded), confirmed on Go's engine; shape predicates of C02; 3 fresh executions (C03); crash/hang (C19)"
	r := NewRng(env.Seed + 100 + uint64(len(focus)))
	n := env.N(150, 6000)
	corpus := generateCorpus()
	n += len(corpus)
	runs := make([]*genRun, n)
	for i := 0; i < n; i++ {
		rr := r.Fork()
		var p *Prog
		if i < len(corpus) {
			p = corpus[i]
		} else {
			p = genProg(rr, focus)
		}
		p.normalise()
		if rr.Chance(1, 10) {
			// a hand-written inline flag group next to a metacharacter that needs another flag: the
			// optimiser then prints groups with several set flags ((?im:, (?ms:, (?im-s:)
			p.Body = append(p.Body, &Item{Kind: "entry", Text: rr.Pick(inlineFlagEntries)})
			p.InlineFlags = true
			p.feat("inline-flag-entry")
		}
		o := &renderOpts{r: rr.Fork(), messy: rr.Chance(1, 3)}
		text := p.Render(o)
		tree := p.Tree("942100", text, o)
		runs[i] = &genRun{p: p, text: text, tree: tree, viaStdin: rr.Chance(1, 2)}
	}
	parallelFor(n, func(i int) {
		g := runs[i]
		g.root = mkScratch(env, "gen")
		writeTree(g.root, g.tree)
		g.first = runGenerate(env, g.root, g.text, g.viaStdin)
		// C03: fresh executions, and the other input path (C18: stdin = file)
		g.repeats = append(g.repeats, runGenerate(env, g.root, g.text, !g.viaStdin))
		g.repeats = append(g.repeats, runGenerate(env, g.root, g.text, g.viaStdin))
		g.den, g.denOK, g.denErr = g.p.PlainReading()
		if exitClass(g.first) == "ok" && g.first.Stdout != "" {
			g.outRX, g.outRXErr = textToRX(g.first.Stdout, false, false)
		}
		_ = os.RemoveAll(g.root)
	})
	// correspondence with the model
	var cases []CorrCase
	for _, g := range runs {
		cfg := g.p.EffectiveCfg()
		fields := []string{"generate", hx(cfg[0]), hx(cfg[1]), hx(cfg[2]), hx(cfg[3]), hx(cfg[4]), hx(cfg[5]), g.p.FsArg(nil, g.tree), hx(g.text)}
		cls := ""
		if exitClass(g.first) == "ok" && g.first.Stdout != "" {
			cls = "compiled"
		}
		for f := range g.p.Features {
			res.count("feature:" + f)
		}
		res.count("config:" + g.p.CfgMode)
		res.count("exit:" + exitClass(g.first))
		cases = append(cases, CorrCase{Fields: fields, Impl: implClass(g.first), Human: strconv.Quote(g.text), Class: cls})
	}
	compareWithModelAlt(env, res, cases)

	// property oracles on the real implementation
	var eqCases [][]string
	var eqIdx []int
	for i, g := range runs {
		input := map[string]interface{}{"assembly": g.text, "files": g.tree, "via_stdin": g.viaStdin}
		cl := exitClass(g.first)
		if cl == "crash" || cl == "hang" {
			res.addFailure(Failure{Kind: "C19", Shape: "generate_" + cl, Input: input, Detail: clip(g.first.Stderr, 400)})
			continue
		}
		if len(g.repeats) > 0 && (g.repeats[0].Exit != g.first.Exit || g.repeats[0].Stdout != g.first.Stdout) && g.repeats[1].Exit == g.first.Exit && g.repeats[1].Stdout == g.first.Stdout {
			// the same bytes through the other input path (stdin / file argument) give another result,
			// while a fresh run through the same path agrees: not nondeterminism but the path (C18)
			res.addFailure(Failure{Kind: "C18", Shape: "c18_stdin_differs_from_file", Input: input, Detail: fmt.Sprintf("via_stdin=%v: %d %q, other path: %d %q", g.viaStdin, g.first.Exit, clip(g.first.Stdout, 200), g.repeats[0].Exit, clip(g.repeats[0].Stdout, 200))})
		}
		for _, rep := range g.repeats {
			if rep.Exit != g.first.Exit || rep.Stdout != g.first.Stdout {
				res.addFailure(Failure{Kind: "C03", Shape: "generate_runs_differ", Input: input, Detail: fmt.Sprintf("first %d %q, other %d %q", g.first.Exit, clip(g.first.Stdout, 200), rep.Exit, clip(rep.Stdout, 200))})
				break
			}
		}
		if g.denErr != nil {
			res.count("plain-reading-unavailable")
			continue
		}
		if cl != "ok" && g.p.InlineFlags {
			// a hand-written inline flag group is outside the fragment C01 is judged on (the optimiser
			// and the final passes are not made for it); only the shape of what IS printed is judged
			res.count("inline-flag-entry:rejected")
			continue
		}
		if cl != "ok" {
			// a well-formed program must compile (C01)
			res.addFailure(Failure{Kind: "C01", Shape: "c01_wellformed_program_rejected", Input: input, Detail: clip(g.first.Stderr, 300)})
			continue
		}
		for _, f := range checkOutputShape(g.first.Stdout, g.p.Flags) {
			res.addFailure(Failure{Kind: "C02", Shape: f, Input: input, Detail: clip(g.first.Stdout, 300)})
		}
		if g.p.InlineFlags {
			res.count("equivalence-skipped-inline-flag-entry")
			continue
		}
		if !g.denOK {
			if g.first.Stdout != "" {
				res.addFailure(Failure{Kind: "C01", Shape: "c01_output_for_empty_program", Input: input, Detail: clip(g.first.Stdout, 200)})
			}
			continue
		}
		if g.first.Stdout == "" {
			res.addFailure(Failure{Kind: "C01", Shape: "c01_empty_output", Input: input, Detail: "plain reading " + clip(g.den.txt, 200)})
			continue
		}
		if g.outRXErr != nil {
			if g.outRXErr == errUnsupported {
				res.count("equivalence-skipped-unsupported-construct")
			} else {
				res.addFailure(Failure{Kind: "C02", Shape: "c02_output_not_re2_parsable", Input: input, Detail: g.outRXErr.Error() + ": " + clip(g.first.Stdout, 200)})
			}
			continue
		}
		eqCases = append(eqCases, []string{"equiv", "11", eqFuel(env), g.outRX, g.den.rx})
		eqIdx = append(eqIdx, i)
	}
	if len(eqCases) > 0 {
		if d := os.Getenv("VERIF_DUMP_EQ"); d != "" {
			var sb strings.Builder
			for _, c := range eqCases {
				sb.WriteString(strings.Join(c, "\t") + "\n")
			}
			_ = os.WriteFile(d, []byte(sb.String()), 0o644)
		}
		outs, err := runDriverParallel(env, eqCases, 14)
		if err != nil {
			res.MismatchCount++
			res.Mismatches = append(res.Mismatches, Mismatch{Human: "equivalence driver", Model: err.Error()})
			return
		}
		for k, v := range outs {
			g := runs[eqIdx[k]]
			input := map[string]interface{}{"assembly": g.text, "files": g.tree, "output": g.first.Stdout, "plain_reading": g.den.txt}
			switch {
			case strings.HasPrefix(v, "HOLDS"):
				res.count("equivalence:holds")
			case v == "FUEL":
				res.count("equivalence:out-of-fuel(no verdict)")
			case strings.HasPrefix(v, "DIFFERS"):
				w, _ := wordOfVerdict(v)
				// confirm on Go's engine in all four contexts
				confirmed := false
				detail := ""
				for _, ctx := range [][2]bool{{true, true}, {true, false}, {false, true}, {false, false}} {
					a, e1 := matchExact(g.first.Stdout, w, ctx[0], ctx[1])
					b, e2 := matchExact(g.den.txt, w, ctx[0], ctx[1])
					if e1 != nil || e2 != nil {
						detail = fmt.Sprintf("cannot compile for confirmation: %v %v", e1, e2)
						continue
					}
					if a != b {
						confirmed = true
						detail = fmt.Sprintf("subject %q (at start %v, at end %v): output matches %v, plain reading matches %v", w, ctx[0], ctx[1], a, b)
						break
					}
				}
				if confirmed {
					res.count("equivalence:differs-confirmed")
					input["witness"] = w
					shape := c01Shape(g, w)
					res.addFailure(Failure{Kind: "C01", Shape: shape, Input: input, Detail: detail})
					// the same difference seen from the property the generator is focused on
					if fp := map[string]string{"cmdline": "C04", "include": "C05", "defs": "C07"}[focus]; fp != "" && shape == "c01_other" {
						res.addFailure(Failure{Kind: fp, Shape: strings.ToLower(fp) + "_language_differs_from_plain_reading", Input: input, Detail: detail})
					}
				} else {
					res.count("equivalence:differs-unconfirmed")
					res.MismatchCount++
					if len(res.Mismatches) < 12 {
						res.Mismatches = append(res.Mismatches, Mismatch{Human: "checker reports a difference that Go's engine does not confirm: " + strconv.Quote(g.text), Impl: g.first.Stdout, Model: v + " " + detail + " spec " + g.den.txt})
					}
				}
			default:
				res.MismatchCount++
				res.Mismatches = append(res.Mismatches, Mismatch{Human: "equivalence driver answer", Model: v})
			}
		}
	}
}

func eqFuel(env *Env) string {
	if env.Tier == "thorough" {
		return "1200"
	}
	return "250"
}

// a class in which \\s\\x0b is directly followed by a range end: the space that started the range is gone
var spaceRangeRe = regexp.MustCompile(`\\s\\x0b-[^\]]`)

var inlineFlagRe = regexp.MustCompile(`\(\?[-misU]+[:)]`)

// the per-character facts of C02 on the real output; returns the shapes that fail
func checkOutputShape(out string, flags string) []string {
	var bad []string
	if out == "" {
		return nil
	}
	for i := 0; i < len(out); i++ {
		if out[i] < 32 || out[i] > 126 {
			bad = append(bad, "c02_not_printable_ascii")
			break
		}
	}
	if !utf8.ValidString(out) {
		bad = append(bad, "c02_invalid_utf8")
	}
	for i := 0; i < len(out); i++ {
		if out[i] == '"' {
			nb := 0
			for j := i - 1; j >= 0 && out[j] == '\\'; j-- {
				nb++
			}
			if nb%2 == 0 {
				bad = append(bad, "c02_unescaped_quote")
				break
			}
		}
	}
	if strings.Contains(out, `\\`) {
		bad = append(bad, "c02_backslash_pair")
	}
	for i := 0; i+1 < len(out); i++ {
		if out[i] == '\\' && out[i+1] == 's' {
			nb := 0
			for j := i - 1; j >= 0 && out[j] == '\\'; j-- {
				nb++
			}
			if nb%2 == 0 && !strings.HasPrefix(out[i+2:], `\x0b`) {
				bad = append(bad, "c02_space_class_without_vt")
				break
			}
		}
	}
	if strings.Contains(out, `\t\n\f\r `) {
		bad = append(bad, "c02_space_class_without_vt")
	}
	body := out
	want := ""
	if strings.Contains(flags, "i") {
		want += "i"
	}
	if strings.Contains(flags, "s") {
		want += "s"
	}
	if want != "" {
		pre := "(?" + want + ")"
		if !strings.HasPrefix(out, pre) {
			bad = append(bad, "c02_flag_prefix_wrong")
		} else {
			body = out[len(pre):]
		}
	}
	if loc := inlineFlagRe.FindStringIndex(body); loc != nil {
		// an escaped parenthesis followed by ?i: is ordinary text
		nb := 0
		for j := loc[0] - 1; j >= 0 && body[j] == '\\'; j-- {
			nb++
		}
		if nb%2 == 0 {
			bad = append(bad, "c02_inline_flag_group")
		}
	}
	if _, err := syntaxParse(out, false, false); err != nil {
		bad = append(bad, "c02_output_not_re2_parsable")
	}
	return bad
}
