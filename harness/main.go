package main

import (
	"flag"
	"fmt"
	"os"
	"path/filepath"
	"sort"
	"strconv"

	"github.com/rs/zerolog"
)

func init() {
	// in-process calls into /repo packages: keep Fatal/Panic semantics, no log output
	zerolog.SetGlobalLevel(zerolog.Disabled)
}

type SuiteFn func(env *Env, res *Result)

var suites = map[string]SuiteFn{}

func register(name string, fn SuiteFn) { suites[name] = fn }

func main() {
	if len(os.Args) < 2 {
		fmt.Fprintln(os.Stderr, "usage: vh run|list|gen ...")
		os.Exit(2)
	}
	switch os.Args[1] {
	case "list":
		names := []string{}
		for n := range suites {
			names = append(names, n)
		}
		sort.Strings(names)
		for _, n := range names {
			fmt.Println(n)
		}
	case "gen":
		genMain(os.Args[2:])
	case "joinsrv":
		joinSrvMain()
	case "child":
		childMain(os.Args[2:])
	case "run":
		fs := flag.NewFlagSet("run", flag.ExitOnError)
		suite := fs.String("suite", "", "suite name")
		seed := fs.String("seed", "1", "seed")
		tier := fs.String("tier", "quick", "quick|thorough")
		boost := fs.Int("boost", 1, "case count multiplier")
		bin := fs.String("bin", "", "crs-toolchain binary (built from /repo)")
		driver := fs.String("driver", "", "extracted model driver")
		work := fs.String("work", "", "scratch directory")
		corpus := fs.String("corpus", "", "corpus directory")
		_ = fs.Parse(os.Args[2:])
		s, _ := strconv.ParseUint(*seed, 10, 64)
		fn, ok := suites[*suite]
		if !ok {
			fmt.Fprintln(os.Stderr, "unknown suite", *suite)
			os.Exit(2)
		}
		self, _ := os.Executable()
		for _, p := range []*string{bin, driver, work, corpus} {
			if *p != "" {
				if a, err := filepath.Abs(*p); err == nil {
					*p = a
				}
			}
		}
		env := &Env{Seed: s, Tier: *tier, Boost: *boost, Bin: *bin, Driver: *driver, Work: *work, Corpus: *corpus, JoinSrv: self}
		res := newResult(*suite)
		fn(env, res)
		emit(res)
	default:
		fmt.Fprintln(os.Stderr, "unknown command", os.Args[1])
		os.Exit(2)
	}
}
