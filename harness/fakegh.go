package main

import (
	"bufio"
	"crypto/ecdsa"
	"crypto/elliptic"
	"crypto/rand"
	"crypto/tls"
	"crypto/x509"
	"crypto/x509/pkix"
	"encoding/json"
	"encoding/pem"
	"fmt"
	"math/big"
	"net"
	"net/http"
	"os"
	"strconv"
	"strings"
	"sync"
	"time"
)

// A local stand-in for api.github.com and the release download hosts.  The
// UNMODIFIED binary is pointed at it with HTTPS_PROXY (every CONNECT is answered
// locally) and SSL_CERT_FILE (a CA generated at run time signs a leaf certificate
// for whatever host the client asks for).

type ghAsset struct {
	ID    int64
	Name  string
	Bytes []byte
	Fail  bool // the download answers 500
}

type ghRelease struct {
	Tag        string
	Draft      bool
	Prerelease bool
	Assets     []*ghAsset
}

type fakeGitHub struct {
	mu       sync.Mutex
	releases []*ghRelease
	listFail bool
	requests []string
	ln       net.Listener
	caPEM    []byte
	caCert   *x509.Certificate
	caKey    *ecdsa.PrivateKey
	leafs    map[string]*tls.Certificate
}

func newFakeGitHub() (*fakeGitHub, error) {
	f := &fakeGitHub{leafs: map[string]*tls.Certificate{}}
	key, err := ecdsa.GenerateKey(elliptic.P256(), rand.Reader)
	if err != nil {
		return nil, err
	}
	tmpl := &x509.Certificate{SerialNumber: big.NewInt(1), Subject: pkix.Name{CommonName: "verif fake CA"}, NotBefore: time.Now().Add(-time.Hour), NotAfter: time.Now().Add(24 * time.Hour),
		IsCA: true, KeyUsage: x509.KeyUsageCertSign | x509.KeyUsageDigitalSignature, BasicConstraintsValid: true}
	der, err := x509.CreateCertificate(rand.Reader, tmpl, tmpl, &key.PublicKey, key)
	if err != nil {
		return nil, err
	}
	f.caCert, _ = x509.ParseCertificate(der)
	f.caKey = key
	f.caPEM = pem.EncodeToMemory(&pem.Block{Type: "CERTIFICATE", Bytes: der})
	ln, err := net.Listen("tcp", "127.0.0.1:0")
	if err != nil {
		return nil, err
	}
	f.ln = ln
	go f.acceptLoop()
	return f, nil
}

func (f *fakeGitHub) Addr() string { return f.ln.Addr().String() }
func (f *fakeGitHub) Close()       { _ = f.ln.Close() }

func (f *fakeGitHub) leafFor(host string) (*tls.Certificate, error) {
	f.mu.Lock()
	defer f.mu.Unlock()
	if c, ok := f.leafs[host]; ok {
		return c, nil
	}
	key, err := ecdsa.GenerateKey(elliptic.P256(), rand.Reader)
	if err != nil {
		return nil, err
	}
	tmpl := &x509.Certificate{SerialNumber: big.NewInt(time.Now().UnixNano()), Subject: pkix.Name{CommonName: host}, DNSNames: []string{host},
		NotBefore: time.Now().Add(-time.Hour), NotAfter: time.Now().Add(24 * time.Hour), KeyUsage: x509.KeyUsageDigitalSignature, ExtKeyUsage: []x509.ExtKeyUsage{x509.ExtKeyUsageServerAuth}}
	der, err := x509.CreateCertificate(rand.Reader, tmpl, f.caCert, &key.PublicKey, f.caKey)
	if err != nil {
		return nil, err
	}
	c := &tls.Certificate{Certificate: [][]byte{der}, PrivateKey: key}
	f.leafs[host] = c
	return c, nil
}

func (f *fakeGitHub) acceptLoop() {
	for {
		c, err := f.ln.Accept()
		if err != nil {
			return
		}
		go f.handleConn(c)
	}
}

func (f *fakeGitHub) handleConn(c net.Conn) {
	defer c.Close()
	_ = c.SetDeadline(time.Now().Add(20 * time.Second))
	br := bufio.NewReader(c)
	req, err := http.ReadRequest(br)
	if err != nil {
		return
	}
	if req.Method != http.MethodConnect {
		f.log("PLAIN " + req.Method + " " + req.URL.String())
		_, _ = c.Write([]byte("HTTP/1.1 502 Bad Gateway\r\nContent-Length: 0\r\n\r\n"))
		return
	}
	host := req.Host
	if h, _, err := net.SplitHostPort(host); err == nil {
		host = h
	}
	_, _ = c.Write([]byte("HTTP/1.1 200 Connection established\r\n\r\n"))
	leaf, err := f.leafFor(host)
	if err != nil {
		return
	}
	tc := tls.Server(c, &tls.Config{Certificates: []tls.Certificate{*leaf}})
	if err := tc.Handshake(); err != nil {
		f.log("TLS-FAIL " + host + " " + err.Error())
		return
	}
	tbr := bufio.NewReader(tc)
	for {
		r, err := http.ReadRequest(tbr)
		if err != nil {
			return
		}
		f.serve(tc, host, r)
		if r.Close {
			return
		}
	}
}

func (f *fakeGitHub) log(s string) {
	f.mu.Lock()
	f.requests = append(f.requests, s)
	f.mu.Unlock()
}

func writeResp(w net.Conn, code int, ctype string, body []byte) {
	fmt.Fprintf(w, "HTTP/1.1 %d %s\r\nContent-Type: %s\r\nContent-Length: %d\r\n\r\n", code, http.StatusText(code), ctype, len(body))
	_, _ = w.Write(body)
}

func (f *fakeGitHub) serve(w net.Conn, host string, r *http.Request) {
	path := r.URL.Path
	f.log(r.Method + " " + host + path)
	f.mu.Lock()
	rels := f.releases
	listFail := f.listFail
	f.mu.Unlock()
	switch {
	case strings.HasSuffix(path, "/releases") && host == "api.github.com":
		if listFail {
			writeResp(w, 500, "application/json", []byte(`{"message":"boom"}`))
			return
		}
		type ja struct {
			ID   int64  `json:"id"`
			Name string `json:"name"`
			Size int    `json:"size"`
			URL  string `json:"url"`
			BDU  string `json:"browser_download_url"`
		}
		type jr struct {
			ID         int64  `json:"id"`
			Tag        string `json:"tag_name"`
			Name       string `json:"name"`
			Draft      bool   `json:"draft"`
			Prerelease bool   `json:"prerelease"`
			HTMLURL    string `json:"html_url"`
			Body       string `json:"body"`
			Published  string `json:"published_at"`
			Assets     []ja   `json:"assets"`
		}
		var out []jr
		for i, rel := range rels {
			j := jr{ID: int64(1000 + i), Tag: rel.Tag, Name: rel.Tag, Draft: rel.Draft, Prerelease: rel.Prerelease, HTMLURL: "https://github.com/coreruleset/crs-toolchain/releases/tag/" + rel.Tag, Published: "2026-01-02T03:04:05Z"}
			for _, a := range rel.Assets {
				j.Assets = append(j.Assets, ja{ID: a.ID, Name: a.Name, Size: len(a.Bytes), URL: "https://api.github.com/repos/coreruleset/crs-toolchain/releases/assets/" + strconv.FormatInt(a.ID, 10),
					BDU: "https://github.com/coreruleset/crs-toolchain/releases/download/" + rel.Tag + "/" + a.Name})
			}
			out = append(out, j)
		}
		if out == nil {
			out = []jr{}
		}
		b, _ := json.Marshal(out)
		writeResp(w, 200, "application/json", b)
	case strings.Contains(path, "/releases/assets/"):
		id, _ := strconv.ParseInt(path[strings.LastIndex(path, "/")+1:], 10, 64)
		for _, rel := range rels {
			for _, a := range rel.Assets {
				if a.ID == id {
					if a.Fail {
						writeResp(w, 500, "text/plain", []byte("boom"))
						return
					}
					writeResp(w, 200, "application/octet-stream", a.Bytes)
					return
				}
			}
		}
		writeResp(w, 404, "application/json", []byte(`{"message":"Not Found"}`))
	case strings.Contains(path, "/releases/download/"):
		parts := strings.Split(path, "/")
		name := parts[len(parts)-1]
		tag := parts[len(parts)-2]
		for _, rel := range rels {
			if rel.Tag != tag {
				continue
			}
			for _, a := range rel.Assets {
				if a.Name == name {
					if a.Fail {
						writeResp(w, 500, "text/plain", []byte("boom"))
						return
					}
					writeResp(w, 200, "application/octet-stream", a.Bytes)
					return
				}
			}
		}
		writeResp(w, 404, "text/plain", []byte("not found"))
	default:
		writeResp(w, 404, "application/json", []byte(`{"message":"Not Found"}`))
	}
}

func (f *fakeGitHub) set(rels []*ghRelease, listFail bool) {
	f.mu.Lock()
	f.releases = rels
	f.listFail = listFail
	f.requests = nil
	f.mu.Unlock()
}

func (f *fakeGitHub) writeCA(path string) error { return os.WriteFile(path, f.caPEM, 0o644) }
